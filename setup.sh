#!/bin/bash
# Offline setup: build the verifier and warm the Go build cache for /repo.
set -e
cd /verif/govc
GOFLAGS=-mod=mod GOPROXY=off GOTOOLCHAIN=local go1.26.8 build -o /verif/bin/govc .
cd /repo
export GOFLAGS=-mod=mod GOPROXY=off
go build -tags verif ./... >/dev/null 2>&1 || go build ./... 
echo setup done
