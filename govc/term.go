package main

import (
	"fmt"
	"sort"
	"strconv"
	"strings"
)

// Sort is an SMT-LIB sort, as text.
type Sort string

const (
	SInt   Sort = "Int"
	SBool  Sort = "Bool"
	SRef   Sort = "Ref"
	SBytes Sort = "Bytes"
	SReal  Sort = "Real"
	SSlice Sort = "Slice"
)

func ArraySort(k, v Sort) Sort { return Sort("(Array " + string(k) + " " + string(v) + ")") }

// IsArray reports whether s is an array sort and returns key and value sorts.
func (s Sort) IsArray() (Sort, Sort, bool) {
	str := string(s)
	if !strings.HasPrefix(str, "(Array ") {
		return "", "", false
	}
	inner := str[len("(Array ") : len(str)-1]
	// split at top-level space
	depth := 0
	for i, c := range inner {
		switch c {
		case '(':
			depth++
		case ')':
			depth--
		case ' ':
			if depth == 0 {
				return Sort(inner[:i]), Sort(inner[i+1:]), true
			}
		}
	}
	return "", "", false
}

// Term is an SMT-LIB term with its sort.
type Term struct {
	S    string
	Sort Sort
}

func (t Term) String() string { return t.S }
func (t Term) IsZero() bool   { return t.S == "" }

var (
	TTrue  = Term{"true", SBool}
	TFalse = Term{"false", SBool}
	TNil   = Term{"nil", SRef}
)

func IntLit(n int64) Term {
	if n < 0 {
		return Term{"(- " + strconv.FormatUint(uint64(-n), 10) + ")", SInt}
	}
	return Term{strconv.FormatInt(n, 10), SInt}
}

func IntLitStr(dec string) Term {
	if strings.HasPrefix(dec, "-") {
		return Term{"(- " + dec[1:] + ")", SInt}
	}
	return Term{dec, SInt}
}

func BoolLit(b bool) Term {
	if b {
		return TTrue
	}
	return TFalse
}

func (t Term) isIntLit() (int64, bool) {
	s := t.S
	neg := false
	if strings.HasPrefix(s, "(- ") && strings.HasSuffix(s, ")") {
		neg = true
		s = s[3 : len(s)-1]
	}
	if s == "" || s[0] < '0' || s[0] > '9' {
		return 0, false
	}
	n, err := strconv.ParseInt(s, 10, 64)
	if err != nil {
		return 0, false
	}
	if neg {
		n = -n
	}
	return n, true
}

func App(sort Sort, fn string, args ...Term) Term {
	if len(args) == 0 {
		return Term{fn, sort}
	}
	var b strings.Builder
	b.WriteByte('(')
	b.WriteString(fn)
	for _, a := range args {
		b.WriteByte(' ')
		b.WriteString(a.S)
	}
	b.WriteByte(')')
	return Term{b.String(), sort}
}

func Not(a Term) Term {
	switch a.S {
	case "true":
		return TFalse
	case "false":
		return TTrue
	}
	if strings.HasPrefix(a.S, "(not ") {
		return Term{a.S[5 : len(a.S)-1], SBool}
	}
	return App(SBool, "not", a)
}

func And(as ...Term) Term {
	var out []Term
	for _, a := range as {
		if a.S == "true" {
			continue
		}
		if a.S == "false" {
			return TFalse
		}
		out = append(out, a)
	}
	switch len(out) {
	case 0:
		return TTrue
	case 1:
		return out[0]
	}
	return App(SBool, "and", out...)
}

func Or(as ...Term) Term {
	var out []Term
	for _, a := range as {
		if a.S == "false" {
			continue
		}
		if a.S == "true" {
			return TTrue
		}
		out = append(out, a)
	}
	switch len(out) {
	case 0:
		return TFalse
	case 1:
		return out[0]
	}
	return App(SBool, "or", out...)
}

func Implies(a, b Term) Term {
	if a.S == "true" {
		return b
	}
	if a.S == "false" || b.S == "true" {
		return TTrue
	}
	return App(SBool, "=>", a, b)
}

func Eq(a, b Term) Term {
	if a.S == b.S {
		return TTrue
	}
	if x, ok := a.isIntLit(); ok {
		if y, ok := b.isIntLit(); ok {
			return BoolLit(x == y)
		}
	}
	if a.Sort == SBool {
		if b.S == "true" {
			return a
		}
		if b.S == "false" {
			return Not(a)
		}
		if a.S == "true" {
			return b
		}
		if a.S == "false" {
			return Not(b)
		}
	}
	return App(SBool, "=", a, b)
}

func Ite(c, a, b Term) Term {
	if c.S == "true" {
		return a
	}
	if c.S == "false" {
		return b
	}
	if a.S == b.S {
		return a
	}
	return App(a.Sort, "ite", c, a, b)
}

func Select(arr, idx Term) Term {
	_, v, ok := arr.Sort.IsArray()
	if !ok {
		panic(fmt.Sprintf("select on non-array %s : %s", arr.S, arr.Sort))
	}
	// read over write, decided syntactically where possible
	cur := arr
	for strings.HasPrefix(cur.S, "(store ") {
		parts := splitSexp(cur.S)
		if len(parts) != 4 {
			break
		}
		if parts[2] == idx.S {
			return Term{parts[3], v}
		}
		if isAllocSym(parts[2]) && isAllocSym(idx.S) || isIntText(parts[2]) && isIntText(idx.S) {
			cur = Term{parts[1], arr.Sort} // distinct allocation constants / distinct literals
			continue
		}
		break
	}
	return App(v, "select", cur, idx)
}

func isAllocSym(s string) bool {
	return strings.HasPrefix(s, "new!") || strings.HasPrefix(s, "|new!")
}

func isIntText(s string) bool {
	if s == "" {
		return false
	}
	for _, c := range s {
		if c < '0' || c > '9' {
			return false
		}
	}
	return true
}

func Store(arr, idx, val Term) Term {
	return App(arr.Sort, "store", arr, idx, val)
}

func arith(op string, a, b Term) Term {
	x, okx := a.isIntLit()
	y, oky := b.isIntLit()
	if okx && oky {
		switch op {
		case "+":
			return IntLit(x + y)
		case "-":
			return IntLit(x - y)
		case "*":
			if (x < 1<<31 && x > -(1<<31)) && (y < 1<<31 && y > -(1<<31)) {
				return IntLit(x * y)
			}
		}
	}
	if op == "+" {
		if okx && x == 0 {
			return b
		}
		if oky && y == 0 {
			return a
		}
	}
	if op == "-" && oky && y == 0 {
		return a
	}
	if op == "*" {
		if okx && x == 1 {
			return b
		}
		if oky && y == 1 {
			return a
		}
	}
	return App(a.Sort, op, a, b)
}

func Add(a, b Term) Term { return arith("+", a, b) }
func Sub(a, b Term) Term { return arith("-", a, b) }
func Mul(a, b Term) Term { return arith("*", a, b) }

func cmp(op string, a, b Term) Term {
	x, okx := a.isIntLit()
	y, oky := b.isIntLit()
	if okx && oky {
		switch op {
		case "<":
			return BoolLit(x < y)
		case "<=":
			return BoolLit(x <= y)
		case ">":
			return BoolLit(x > y)
		case ">=":
			return BoolLit(x >= y)
		}
	}
	return App(SBool, op, a, b)
}

func Lt(a, b Term) Term { return cmp("<", a, b) }
func Le(a, b Term) Term { return cmp("<=", a, b) }
func Gt(a, b Term) Term { return cmp(">", a, b) }
func Ge(a, b Term) Term { return cmp(">=", a, b) }

// smtSym quotes a symbol if needed.
func smtSym(s string) string {
	ok := true
	for i, c := range s {
		if c >= 'a' && c <= 'z' || c >= 'A' && c <= 'Z' || c == '_' || c == '.' || c == '$' || c == '!' || c == '@' || c == '%' || c == '~' || (i > 0 && c >= '0' && c <= '9') {
			continue
		}
		ok = false
		break
	}
	if ok && s != "" {
		return s
	}
	s = strings.ReplaceAll(s, "|", "!")
	s = strings.ReplaceAll(s, "\\", "!")
	return "|" + s + "|"
}

// Decls is an ordered set of SMT declarations.
type Decls struct {
	order []string
	text  map[string]string
	sorts map[string]Sort // constants/functions result sort
}

func NewDecls() *Decls {
	return &Decls{text: map[string]string{}, sorts: map[string]Sort{}}
}

func (d *Decls) Has(name string) bool { _, ok := d.text[name]; return ok }

func (d *Decls) Add(name, text string) {
	if _, ok := d.text[name]; ok {
		return
	}
	d.text[name] = text
	d.order = append(d.order, name)
}

func (d *Decls) Const(name string, s Sort) Term {
	sym := smtSym(name)
	d.Add(name, fmt.Sprintf("(declare-fun %s () %s)", sym, s))
	d.sorts[name] = s
	return Term{sym, s}
}

func (d *Decls) Fun(name string, args []Sort, res Sort) string {
	sym := smtSym(name)
	as := make([]string, len(args))
	for i, a := range args {
		as[i] = string(a)
	}
	d.Add(name, fmt.Sprintf("(declare-fun %s (%s) %s)", sym, strings.Join(as, " "), res))
	d.sorts[name] = res
	return sym
}

func (d *Decls) Len() int { return len(d.order) }

func (d *Decls) Text(upto int) string {
	var b strings.Builder
	if upto < 0 || upto > len(d.order) {
		upto = len(d.order)
	}
	for _, n := range d.order[:upto] {
		b.WriteString(d.text[n])
		b.WriteByte('\n')
	}
	return b.String()
}

func sortedKeys[V any](m map[string]V) []string {
	ks := make([]string, 0, len(m))
	for k := range m {
		ks = append(ks, k)
	}
	sort.Strings(ks)
	return ks
}
