package main

import (
	"fmt"
	"go/token"
	"os"
	"sort"
	"strings"
)

// frameLoc is one location a modifies clause allows to change: a key of a
// heap array, optionally restricted to an index range of the object there.
type frameLoc struct {
	Array string
	Key   Term
	Whole bool // the whole array (0-ary ghost, havoc of a non-indexed location)
	Range bool // only [Off, Off+Len) of the object at Key
	Off   Term
	Len   Term
}

func (ex *Exec) recLoc(l frameLoc) {
	if ex.rec != nil {
		*ex.rec = append(*ex.rec, l)
	}
}

// internal ghost arrays no contract can observe across a call
func frameExempt(name string) bool {
	return strings.HasPrefix(name, "RangeVisited")
}

// checkFrame: the function changes nothing outside its modifies clause (at a return).
func (ex *Exec) checkFrame(st *State, pos token.Pos) { ex.frameCond(st, pos, false) }

// frameCond states, for the current heap against the entry heap, that nothing
// outside the modifies clause has changed. The locations are those a caller
// havocs (evaluated in the entry state); for every heap array whose term differs
// from the entry term, every object that existed at entry and is not listed keeps
// its value, and a listed index range keeps everything outside the range.
// With assume=false the condition is emitted as obligations (at returns, at loop
// entry and at loop back edges); with assume=true it is assumed (at a loop head
// after the havoc: the frame condition is an implicit loop invariant).
func (ex *Exec) frameCond(st *State, pos token.Pos, assume bool) {
	if ex.fc.HavocAll || ex.aborted != "" || os.Getenv("GOVC_NOFRAME") != "" {
		return
	}
	w := ex.w
	old := ex.entry
	// collect allowed locations by replaying the caller-side havoc on a scratch copy of the entry state
	scratch := st.clone()
	scratch.heap = old.clone()
	var recs []frameLoc
	ex.rec = &recs
	ex.implLockgen = true
	env := ex.contractEnv(scratch, old)
	for _, m := range ex.fc.Modifies {
		for _, e := range m.Exprs {
			if err := ex.havocLoc(scratch, env, old, e); err != nil {
				ex.rec = nil
				ex.aborted = fmt.Sprintf("%s:%d: modifies: %v", m.File, m.Line, err)
				return
			}
		}
	}
	for _, gs := range ex.fc.GhostSets {
		if len(gs.Exprs) == 0 {
			continue
		}
		switch t := gs.Exprs[0].(type) {
		case *CCall:
			recs = append(recs, frameLoc{Array: "G_" + t.Fn, Whole: true})
		case *CIdent:
			recs = append(recs, frameLoc{Array: "G_" + t.Name, Whole: true})
		}
	}
	ex.rec = nil
	byArr := map[string][]frameLoc{}
	for _, r := range recs {
		byArr[r.Array] = append(byArr[r.Array], r)
	}
	nameSet := map[string]bool{}
	for n := range st.heap.m {
		nameSet[n] = true
	}
	if st.heap.gen != old.gen {
		// everything was havoced at some point: every known array is a different symbol now
		for n := range w.heapArrays {
			nameSet[n] = true
		}
	}
	names := make([]string, 0, len(nameSet))
	for n := range nameSet {
		names = append(names, n)
	}
	sort.Strings(names)
	emit := func(name, src string, goal Term) {
		if assume {
			st.assume(goal)
			return
		}
		ex.addOb(st, "frame", name, src, pos, goal)
	}
	for _, name := range names {
		if frameExempt(name) {
			continue
		}
		srt, known := w.heapArrays[name]
		if !known {
			if c, ok := st.heap.m[name]; ok {
				srt = c.Sort
			} else {
				continue
			}
		}
		cur := w.heapGet(st.heap, name, srt)
		oldT := w.heapGet(old, name, srt)
		if cur.S == oldT.S {
			continue
		}
		locs := byArr[name]
		whole := false
		for _, l := range locs {
			if l.Whole {
				whole = true
			}
		}
		if whole {
			continue
		}
		k1, _, isArr := srt.IsArray()
		obn := ex.fn.Name() + ".frame." + name
		src := "nothing outside the modifies clause changes (" + name + ")"
		// a chain of stores over the entry array whose keys are all objects allocated by this
		// activation (or listed whole) needs no solver
		if isArr && ex.freshOnlyChain(st, cur.S, oldT.S, locs) {
			if !assume {
				ex.addOb(st, "frame", obn, src, pos, TTrue)
			}
			continue
		}
		if os.Getenv("GOVC_FRAMEREPORT") != "" {
			if len(locs) == 0 && !assume {
				fmt.Fprintf(os.Stderr, "FRAME %s: %s changed, no modifies entry\n", ex.fn.String(), name)
			}
			continue
		}
		if !isArr {
			emit(obn, src, Eq(cur, oldT))
			continue
		}
		q := Term{"r!fq", k1}
		var conds []Term
		if k1 == SRef {
			conds = append(conds, Le(App(SInt, "born", q), IntLit(int64(old.clock))))
		}
		for _, l := range locs {
			conds = append(conds, Not(Eq(q, l.Key)))
		}
		body := Implies(And(conds...), Eq(Select(cur, q), Select(oldT, q)))
		goal := Term{fmt.Sprintf("(forall ((r!fq %s)) (! %s :pattern ((select %s r!fq))))", k1, body.S, cur.S), SBool}
		emit(obn, src, goal)
		// index ranges: outside the listed ranges of a listed object nothing changes
		done := map[string]bool{}
		for _, l := range locs {
			if !l.Range || done[l.Key.S] {
				continue
			}
			done[l.Key.S] = true
			var outside []Term
			i := Term{"i!fq", SInt}
			for _, l2 := range locs {
				same := Eq(l2.Key, l.Key)
				if !l2.Range {
					outside = append(outside, Not(same))
					continue
				}
				outside = append(outside, Or(Not(same), Lt(i, l2.Off), Ge(i, Add(l2.Off, l2.Len))))
				if name == "BM" {
					// a slice lies within its backing array (type invariant of the slice value)
					outside = append(outside, And(Le(IntLit(0), l2.Off), Le(IntLit(0), l2.Len), Le(Add(l2.Off, l2.Len), BLen(Select(oldT, l2.Key)))))
				}
			}
			co, oo := Select(cur, l.Key), Select(oldT, l.Key)
			pre := Le(App(SInt, "born", l.Key), IntLit(int64(old.clock)))
			if name == "BM" {
				emit(obn+".len", src, Implies(pre, Eq(BLen(co), BLen(oo))))
				b := Implies(And(append([]Term{pre, Le(IntLit(0), i), Lt(i, BLen(oo))}, outside...)...), Eq(App(SInt, "bat", co, i), App(SInt, "bat", oo, i)))
				emit(obn+".range", src, Term{fmt.Sprintf("(forall ((i!fq Int)) (! %s :pattern ((bat %s i!fq))))", b.S, co.S), SBool})
			} else {
				b := Implies(And(append([]Term{pre}, outside...)...), Eq(Select(co, i), Select(oo, i)))
				emit(obn+".range", src, Term{fmt.Sprintf("(forall ((i!fq Int)) (! %s :pattern ((select %s i!fq))))", b.S, co.S), SBool})
			}
		}
	}
}

// freshOnlyChain: cur is (store (store ... old k1 v1) ... kn vn) and every key is
// rooted at an object allocated by this activation or is a key listed without a range.
func (ex *Exec) freshOnlyChain(st *State, cur, old string, locs []frameLoc) bool {
	fresh := map[string]bool{}
	for _, a := range st.allocs {
		fresh[a.S] = true
	}
	listed := map[string]bool{}
	for _, l := range locs {
		if !l.Range {
			listed[l.Key.S] = true
		}
	}
	for n := 0; cur != old; n++ {
		if n > 10000 || !strings.HasPrefix(cur, "(store ") {
			return false
		}
		parts := splitSexp(cur)
		if len(parts) != 4 {
			return false
		}
		key := parts[2]
		if !listed[key] {
			root := key
			for strings.HasPrefix(root, "(") {
				ps := splitSexp(root)
				if len(ps) < 2 || ps[0] == "ite" || ps[0] == "select" {
					return false
				}
				root = ps[1]
			}
			if !fresh[root] {
				return false
			}
		}
		cur = parts[1]
	}
	return true
}

// everyArray resolves every("pkg/path.Type.field") or every(ghost) to a heap array.
func (ex *Exec) everyArray(n *CCall) (string, Sort, bool) {
	w := ex.w
	if len(n.Args) != 1 {
		return "", "", false
	}
	switch a := n.Args[0].(type) {
	case *CIdent:
		if a.Name == "lockstate" {
			return "LockState", ArraySort(SRef, SInt), true
		}
		if g, ok := w.CS.Ghosts[a.Name]; ok {
			if len(g.Params) == 1 {
				return "G_" + a.Name, ArraySort(g.Params[0], g.Result), true
			}
			return "G_" + a.Name, g.Result, true
		}
	case *CStr:
		i := strings.LastIndex(a.Val, ".")
		if i < 0 {
			return "", "", false
		}
		t := ex.lookupTypeByString(a.Val[:i])
		if t == nil {
			return "", "", false
		}
		if s, ok := asStruct(t); ok {
			for j := 0; j < s.NumFields(); j++ {
				if s.Field(j).Name() == a.Val[i+1:] {
					an, as := w.FieldArray(t, j)
					return an, as, true
				}
			}
		}
	}
	return "", "", false
}
