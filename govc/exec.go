package main

import (
	"fmt"
	"go/constant"
	"go/token"
	"go/types"
	"math/big"
	"sort"
	"strings"

	"golang.org/x/tools/go/ssa"
)

// ---------- heap ----------

type Heap struct {
	m     map[string]Term
	gen   int
	clock int            // allocation clock: every reference existing now has born <= clock
	bound map[string]int // per array: references stored in it have born <= bound (default defBound)
	defBound int
}

func (h *Heap) clone() *Heap {
	n := &Heap{m: make(map[string]Term, len(h.m)), gen: h.gen, clock: h.clock, defBound: h.defBound, bound: make(map[string]int, len(h.bound))}
	for k, v := range h.m {
		n.m[k] = v
	}
	for k, v := range h.bound {
		n.bound[k] = v
	}
	return n
}

func (h *Heap) boundOf(name string) int {
	if b, ok := h.bound[name]; ok {
		return b
	}
	if h.defBound == 0 {
		return 1
	}
	return h.defBound
}

func (w *World) heapGet(h *Heap, name string, s Sort) Term {
	if t, ok := h.m[name]; ok {
		return t
	}
	cname := name
	if h.gen > 0 {
		cname = fmt.Sprintf("%s@%d", name, h.gen)
	}
	t := w.D.Const(cname, s)
	if w.heapArrays == nil {
		w.heapArrays = map[string]Sort{}
	}
	w.heapArrays[name] = s
	return t
}

func (w *World) heapSet(h *Heap, name string, t Term) {
	h.m[name] = t
	if h.bound == nil {
		h.bound = map[string]int{}
	}
	h.bound[name] = h.clock
}

func (w *World) heapHavocAll(h *Heap) {
	// which locks THIS thread holds is not something a callee changes behind its back: uncontracted
	// callees are assumed lock-balanced (they return with the caller's locks as they found them)
	ls, hasLS := h.m["LockState"]
	if !hasLS && w.heapArrays != nil {
		if s, ok := w.heapArrays["LockState"]; ok {
			ls, hasLS = w.heapGet(h, "LockState", s), true
		}
	}
	defer func() {
		if hasLS {
			h.m["LockState"] = ls
		}
	}()
	w.fresh++
	h.gen = w.fresh
	h.m = map[string]Term{}
	h.bound = map[string]int{}
	h.defBound = h.clock
}

// ---------- state ----------

type envEntry struct {
	v      ssa.Value
	isAddr bool
}

type deferred struct {
	call *ssa.CallCommon
	args []Term // evaluated at defer time (including receiver / closure value first when applicable)
	fnv  Term
	pos  token.Pos
}

type Frame struct {
	fn      *ssa.Function
	regs    map[ssa.Value]Term
	tuples  map[ssa.Value][]Term
	block   *ssa.BasicBlock
	prev    *ssa.BasicBlock
	idx     int
	defers  []deferred
	env     map[string]envEntry
	retTo   ssa.Value // call instruction in the caller receiving the result (may be nil)
	isDefer bool
	loopIn  map[*ssa.BasicBlock]*loopEntry
	unroll  map[*ssa.BasicBlock]int
	runningDefers bool
	results []Term
}

type loopEntry struct {
	dec     Term
	hasDec  bool
	heapAt  *Heap
}

func (f *Frame) clone() *Frame {
	n := *f
	n.regs = make(map[ssa.Value]Term, len(f.regs))
	for k, v := range f.regs {
		n.regs[k] = v
	}
	n.tuples = make(map[ssa.Value][]Term, len(f.tuples))
	for k, v := range f.tuples {
		n.tuples[k] = v
	}
	n.env = make(map[string]envEntry, len(f.env))
	for k, v := range f.env {
		n.env[k] = v
	}
	n.defers = append([]deferred(nil), f.defers...)
	n.loopIn = make(map[*ssa.BasicBlock]*loopEntry, len(f.loopIn))
	for k, v := range f.loopIn {
		n.loopIn[k] = v
	}
	n.unroll = make(map[*ssa.BasicBlock]int, len(f.unroll))
	for k, v := range f.unroll {
		n.unroll[k] = v
	}
	return &n
}

type State struct {
	frames  []*Frame
	heap    *Heap
	pc      []Term
	branch  map[int]bool // indices of pc that are branch conditions
	allocs  []Term
	trace   []string
	closures map[string]*ssa.MakeClosure // closure ref term -> instruction
	cloBind  map[string][]Term
	ghostSeq int
	held     []string // lock classes held on this path (lock-order discipline)
	}

func (s *State) clone() *State {
	n := &State{heap: s.heap.clone(), ghostSeq: s.ghostSeq, held: append([]string(nil), s.held...)}
	n.frames = make([]*Frame, len(s.frames))
	for i, f := range s.frames {
		n.frames[i] = f.clone()
	}
	n.pc = append([]Term(nil), s.pc...)
	n.branch = make(map[int]bool, len(s.branch))
	for k, v := range s.branch {
		n.branch[k] = v
	}
	n.allocs = append([]Term(nil), s.allocs...)
	n.trace = append([]string(nil), s.trace...)
	n.closures = make(map[string]*ssa.MakeClosure, len(s.closures))
	for k, v := range s.closures {
		n.closures[k] = v
	}
	n.cloBind = make(map[string][]Term, len(s.cloBind))
	for k, v := range s.cloBind {
		n.cloBind[k] = v
	}
	return n
}

func (s *State) top() *Frame { return s.frames[len(s.frames)-1] }

func (s *State) assume(t Term) {
	if t.S == "true" {
		return
	}
	s.pc = append(s.pc, t)
}

// assumeBranch records a branch condition (an infeasible path is normal when a
// branch condition is what makes its assumptions unsatisfiable).
func (s *State) assumeBranch(t Term) {
	if t.S == "true" {
		return
	}
	if s.branch == nil {
		s.branch = map[int]bool{}
	}
	s.branch[len(s.pc)] = true
	s.pc = append(s.pc, t)
}

// ---------- obligations ----------

type Obligation struct {
	Name     string
	Kind     string // post, pre, inv-init, inv-preserve, decreases, safety, lemma, cover, frame, guard
	Func     string
	Pos      string
	Src      string
	Assume   []Term
	Goal     Term
	Trace    []string
	Expect   string // "unsat" normally; "sat" for cover checks
	Bounded  bool
	Props    []string
	Uses     []string
	Model    map[string]Term
	// result
	scriptText string
	extraDecls string
	branchIdx  map[int]bool
	pathNo     int
	replayed   bool
	replayNote string
	Result   string // discharged, refuted, undecided
	Solver   string
	Time     float64
	Output   string
	ModelOut string
}

// ---------- executor ----------

type loopInfo struct {
	index  int
	header *ssa.BasicBlock
	body   map[*ssa.BasicBlock]bool
	mods   map[string]Sort // heap arrays stored in the body
	local  map[string]Sort // heap arrays only written at objects allocated inside the body
	all    bool            // havoc everything
}

type Exec struct {
	w        *World
	fn       *ssa.Function
	fc       *FuncContract
	pkg      *ssa.Package
	obs      []*Obligation
	loops    map[*ssa.BasicBlock]*loopInfo
	paths    int
	maxPaths int
	entry    *Heap
	rec      *[]frameLoc // when set, store/havocLoc record the locations they write
	implLockgen bool     // modifies lockstate(m) of a function with a body also covers lockgen(m)
	localAlias map[string]string // renamed locals: name in the contract -> current name
	curCall  *ssa.CallCommon // the call whose contract is being applied (for allfields())
	curNames []string
	params   map[string]CV
	aborted  string
	guards   []*guardInfo
	uncontracted map[string]int
	accessUsed   map[string]bool // `at write|read S.f` clauses that met an access
	usedContracts map[string]bool
	obSeen   map[string]int
	returns  int
}

func (w *World) posStr(p token.Pos) string {
	if !p.IsValid() {
		return ""
	}
	pos := w.Prog.Fset.Position(p)
	f := pos.Filename
	if i := strings.Index(f, "/repo/"); i >= 0 {
		f = f[i+6:]
	}
	return fmt.Sprintf("%s:%d", f, pos.Line)
}

func (ex *Exec) addOb(st *State, kind, name, src string, pos token.Pos, goal Term) {
	// a conjunction is discharged conjunct by conjunct (smaller queries)
	if strings.HasPrefix(goal.S, "(and ") {
		if parts := splitSexp(goal.S); len(parts) > 2 {
			for _, p := range parts[1:] {
				ex.addOb(st, kind, name, src, pos, Term{p, SBool})
			}
			return
		}
	}
	if strings.HasPrefix(goal.S, "(=> ") {
		if parts := splitSexp(goal.S); len(parts) == 3 && strings.HasPrefix(parts[2], "(and ") {
			if cs := splitSexp(parts[2]); len(cs) > 2 {
				for _, c := range cs[1:] {
					ex.addOb(st, kind, name, src, pos, Term{"(=> " + parts[1] + " " + c + ")", SBool})
				}
				return
			}
		}
	}
	if goal.S != "true" {
		for _, a := range st.pc {
			if a.S == goal.S {
				goal = TTrue
				break
			}
		}
	}
	if goal.S == "true" {
		// still count as an obligation, trivially discharged
		ob := &Obligation{Name: name, Kind: kind, Func: ex.fn.String(), Pos: ex.w.posStr(pos), Src: src, Goal: goal, Expect: "unsat", Result: "discharged", Solver: "trivial", Props: ex.fc.Props, Bounded: ex.fc.Bound > 0}
		ex.obs = append(ex.obs, ob)
		return
	}
	ob := &Obligation{Name: name, Kind: kind, Func: ex.fn.String(), Pos: ex.w.posStr(pos), Src: src,
		Assume: append([]Term(nil), st.pc...), Goal: goal, Trace: append([]string(nil), st.trace...), Expect: "unsat", Props: ex.fc.Props, Bounded: ex.fc.Bound > 0, Uses: ex.fc.Uses}
	ex.obs = append(ex.obs, ob)
}

// analyseLoops finds natural loops and the heap arrays their bodies store to.
func (ex *Exec) analyseLoops(fn *ssa.Function) map[*ssa.BasicBlock]*loopInfo {
	loops := map[*ssa.BasicBlock]*loopInfo{}
	for _, b := range fn.Blocks {
		for _, s := range b.Succs {
			if s.Dominates(b) {
				li := loops[s]
				if li == nil {
					li = &loopInfo{header: s, body: map[*ssa.BasicBlock]bool{s: true}, mods: map[string]Sort{}, local: map[string]Sort{}}
					loops[s] = li
				}
				// natural loop of back edge b->s
				stack := []*ssa.BasicBlock{b}
				for len(stack) > 0 {
					x := stack[len(stack)-1]
					stack = stack[:len(stack)-1]
					if li.body[x] {
						continue
					}
					li.body[x] = true
					stack = append(stack, x.Preds...)
				}
			}
		}
	}
	// ordinals in block order
	var hs []*ssa.BasicBlock
	for h := range loops {
		hs = append(hs, h)
	}
	sort.Slice(hs, func(i, j int) bool { return hs[i].Index < hs[j].Index })
	for i, h := range hs {
		loops[h].index = i
	}
	for _, li := range loops {
		for b := range li.body {
			for _, in := range b.Instrs {
				ex.instrMods(in, li)
			}
		}
	}
	return loops
}

func (ex *Exec) addrMods(addr ssa.Value, li *loopInfo) {
	w := ex.w
	switch a := addr.(type) {
	case *ssa.FieldAddr:
		st := deref(a.X.Type())
		if _, ok := asStruct(st); ok {
			ft := st.Underlying().(*types.Struct).Field(a.Field).Type()
			if _, isStruct := asStruct(ft); isStruct {
				ex.typeMods(ft, li)
				return
			}
			if isByteArray(ft) {
				li.mods["BM"] = ArraySort(SRef, SBytes)
				return
			}
			n, s := w.FieldArray(st, a.Field)
			li.mods[n] = s
			return
		}
	case *ssa.IndexAddr:
		xt := a.X.Type().Underlying()
		var elem types.Type
		switch t := xt.(type) {
		case *types.Slice:
			elem = t.Elem()
		case *types.Pointer:
			if at, ok := t.Elem().Underlying().(*types.Array); ok {
				elem = at.Elem()
				if !isByte(elem) {
					n, s := w.CellArray(t.Elem())
					li.mods[n] = s
					return
				}
			}
		}
		if elem != nil {
			if _, isStruct := asStruct(elem); isStruct {
				ex.typeMods(elem, li)
				return
			}
			n, s := w.ElemArray(elem)
			li.mods[n] = s
			return
		}
	}
	ex.typeMods(deref(addr.Type()), li)
}

func (ex *Exec) typeMods(t types.Type, li *loopInfo) {
	w := ex.w
	if st, ok := asStruct(t); ok {
		for i := 0; i < st.NumFields(); i++ {
			ft := st.Field(i).Type()
			if _, isStruct := asStruct(ft); isStruct {
				ex.typeMods(ft, li)
				continue
			}
			if isByteArray(ft) {
				li.mods["BM"] = ArraySort(SRef, SBytes)
				continue
			}
			n, s := w.FieldArray(t, i)
			li.mods[n] = s
		}
		return
	}
	n, s := w.CellArray(t)
	li.mods[n] = s
}

func (ex *Exec) instrMods(in ssa.Instruction, li *loopInfo) {
	w := ex.w
	switch x := in.(type) {
	case *ssa.Store:
		if root := addrRoot(x.Addr); root != nil && li.body[root.Block()] && li.local != nil {
			// a store into an object allocated by this very iteration
			tmp := &loopInfo{mods: li.local}
			ex.addrMods(x.Addr, tmp)
			return
		}
		ex.addrMods(x.Addr, li)
	case *ssa.MapUpdate:
		if mt, ok := x.Map.Type().Underlying().(*types.Map); ok {
			pn, ps, vn, vs := w.MapArrays(mt)
			li.mods[pn] = ps
			li.mods[vn] = vs
		}
	case *ssa.Alloc:
		if li.local != nil {
			ex.typeMods(deref(x.Type()), &loopInfo{mods: li.local})
		} else {
			ex.typeMods(deref(x.Type()), li)
		}
	case *ssa.Next:
		if rg, ok := x.Iter.(*ssa.Range); ok {
			if mt, isM := rg.X.Type().Underlying().(*types.Map); isM {
				vn, vs := w.RangeVisitedArray(mt)
				li.mods[vn] = vs
			}
		}
	case *ssa.MakeSlice:
		n, s := w.ElemArray(x.Type().Underlying().(*types.Slice).Elem())
		li.mods[n] = s
	case *ssa.MakeMap:
		if mt, ok := x.Type().Underlying().(*types.Map); ok {
			pn, ps, vn, vs := w.MapArrays(mt)
			li.mods[pn] = ps
			li.mods[vn] = vs
		}
	case *ssa.Defer:
		li.all = true
	case *ssa.Go:
		// not modelled
	case ssa.CallInstruction:
		c := x.Common()
		if b, ok := c.Value.(*ssa.Builtin); ok {
			switch b.Name() {
			case "append", "copy":
				if st, ok := c.Args[0].Type().Underlying().(*types.Slice); ok {
					if _, isStruct := asStruct(st.Elem()); isStruct {
						ex.typeMods(st.Elem(), li)
					} else {
						n, s := w.ElemArray(st.Elem())
						li.mods[n] = s
					}
				}
			case "delete", "clear":
				if mt, ok := c.Args[0].Type().Underlying().(*types.Map); ok {
					pn, ps, vn, vs := w.MapArrays(mt)
					li.mods[pn] = ps
					li.mods[vn] = vs
				} else {
					li.all = true
				}
			}
			return
		}
		fc, _ := ex.lookupContract(c)
		if fc == nil {
			pol := ex.policyFor(c)
			if pol == "havoc" {
				li.all = true
			}
			return
		}
		if fc.HavocAll {
			li.all = true
			return
		}
		if fc.Pure || fc.NoEffect {
			return
		}
		// arrays named in modifies: resolved dynamically is not possible here;
		// be conservative by resolving the array from the expression shape.
		for _, m := range fc.Modifies {
			for _, e := range m.Exprs {
				names, ok := ex.modArrayNames(fc, c, e)
				if !ok {
					li.all = true
					return
				}
				for n, s := range names {
					li.mods[n] = s
				}
			}
		}
	}
}

func deref(t types.Type) types.Type {
	if p, ok := t.Underlying().(*types.Pointer); ok {
		return p.Elem()
	}
	return t
}

// ---------- running ----------

func (ex *Exec) newTopState() (*State, *CEnv) {
	w := ex.w
	fn := ex.fn
	st := &State{heap: &Heap{m: map[string]Term{}, clock: 1, defBound: 1, bound: map[string]int{}}, closures: map[string]*ssa.MakeClosure{}, cloBind: map[string][]Term{}}
	fr := &Frame{fn: fn, regs: map[ssa.Value]Term{}, tuples: map[ssa.Value][]Term{}, env: map[string]envEntry{}, loopIn: map[*ssa.BasicBlock]*loopEntry{}, unroll: map[*ssa.BasicBlock]int{}}
	st.frames = []*Frame{fr}
	ex.params = map[string]CV{}
	for _, p := range fn.Params {
		t := w.D.Const("p!"+fn.Name()+"!"+p.Name(), w.SortOf(p.Type()))
		fr.regs[p] = t
		ex.params[p.Name()] = CV{T: t, GoT: p.Type()}
		ex.assumeTyped(st, t, p.Type())
	}
	// names the contract was written against that a later (harmless) rename removed: bound by position
	ex.localAlias = map[string]string{}
	if snap, ok := w.sigs[fn.String()]; ok {
		pa, la := aliasesFor(snap, fn)
		for old, i := range pa {
			ex.params[old] = ex.params[fn.Params[i].Name()]
			w.Note("contract of " + fn.Name() + " names parameter " + old + ", now " + fn.Params[i].Name() + " (bound by position)")
		}
		for old, now := range la {
			ex.localAlias[old] = now
			w.Note("contract of " + fn.Name() + " names local " + old + ", now " + now + " (bound by position)")
		}
	}
	for _, fv := range fn.FreeVars {
		t := w.D.Const("fv!"+fn.Name()+"!"+fv.Name(), w.SortOf(fv.Type()))
		fr.regs[fv] = t
		ex.params[fv.Name()] = CV{T: t, GoT: fv.Type()}
	}
	ex.entry = st.heap.clone()
	env := ex.contractEnv(st, ex.entry)
	return st, env
}

func (ex *Exec) contractEnv(st *State, old *Heap) *CEnv {
	env := &CEnv{ex: ex, st: st, vars: map[string]CV{}, old: old, pkg: ex.fn.Pkg, freshAfter: 1}
	for k, v := range ex.params {
		env.vars[k] = v
	}
	return env
}

// Run symbolically executes the function and collects obligations.
func (ex *Exec) Run() {
	defer func() {
		if r := recover(); r != nil {
			ex.aborted = fmt.Sprintf("engine error: %v", r)
			if debugPanics {
				panic(r)
			}
		}
	}()
	if len(ex.fn.Blocks) == 0 {
		ex.aborted = "no body"
		return
	}
	ex.loops = ex.analyseLoops(ex.fn)
	st, env := ex.newTopState()
	for _, r := range ex.fc.Requires {
		cv, err := env.Eval(r.Expr)
		if err != nil {
			ex.aborted = fmt.Sprintf("%s:%d: requires: %v", r.File, r.Line, err)
			return
		}
		st.assume(cv.T)
	}
	// cover: preconditions satisfiable
	ob := &Obligation{Name: ex.fn.Name() + ".requires.cover", Kind: "cover", Func: ex.fn.String(), Pos: ex.w.posStr(ex.fn.Pos()), Src: "requires satisfiable", Assume: append([]Term(nil), st.pc...), Goal: TFalse, Expect: "sat", Props: ex.fc.Props}
	ex.obs = append(ex.obs, ob)
	fr := st.top()
	fr.block = ex.fn.Blocks[0]
	work := []*State{st}
	for len(work) > 0 {
		s := work[len(work)-1]
		work = work[:len(work)-1]
		ex.paths++
		if ex.paths > ex.maxPaths {
			ex.aborted = fmt.Sprintf("path limit %d exceeded", ex.maxPaths)
			return
		}
		forks := ex.runPath(s)
		work = append(work, forks...)
	}
}

var debugPanics = false

// runPath executes until the path ends; returns forked states to explore.
func (ex *Exec) runPath(st *State) []*State {
	for steps := 0; ; steps++ {
		if steps > 200000 {
			ex.aborted = "step limit"
			return nil
		}
		fr := st.top()
		if fr.idx >= len(fr.block.Instrs) {
			panic("fell off block")
		}
		in := fr.block.Instrs[fr.idx]
		fr.idx++
		forks, done := ex.step(st, fr, in)
		if done || len(forks) > 0 {
			return forks
		}
	}
}

func (ex *Exec) jump(st *State, fr *Frame, to *ssa.BasicBlock) (forks []*State, done bool) {
	from := fr.block
	li := ex.loopsOf(fr.fn)[to]
	fr.prev = from
	fr.block = to
	fr.idx = 0
	if li == nil {
		return nil, false
	}
	return ex.enterLoopHeader(st, fr, li, from)
}

var loopCache = map[*ssa.Function]map[*ssa.BasicBlock]*loopInfo{}

func (ex *Exec) loopsOf(fn *ssa.Function) map[*ssa.BasicBlock]*loopInfo {
	if fn == ex.fn {
		return ex.loops
	}
	if l, ok := loopCache[fn]; ok {
		return l
	}
	l := ex.analyseLoops(fn)
	loopCache[fn] = l
	return l
}

func (ex *Exec) evalPhisInto(st *State, fr *Frame, blk, from *ssa.BasicBlock, dst map[ssa.Value]Term) {
	predIdx := -1
	for i, p := range blk.Preds {
		if p == from {
			predIdx = i
			break
		}
	}
	for _, in := range blk.Instrs {
		phi, ok := in.(*ssa.Phi)
		if !ok {
			break
		}
		if predIdx < 0 {
			panic("phi: predecessor not found")
		}
		dst[phi] = ex.operand(st, fr, phi.Edges[predIdx])
	}
}

func (ex *Exec) invEnv(st *State, fr *Frame, hdr *ssa.BasicBlock, phiVals map[ssa.Value]Term) *CEnv {
	env := ex.contractEnv(st, ex.entry)
	env.frame = fr
	// frame env (debug refs)
	for _, in := range hdr.Instrs {
		phi, ok := in.(*ssa.Phi)
		if !ok {
			break
		}
		if phi.Comment != "" {
			env.vars[phi.Comment] = CV{T: phiVals[phi], GoT: phi.Type()}
		}
	}
	// loop variables the invariants name by the name they had when the contract was written
	for old, now := range ex.localAlias {
		if v, ok := env.vars[now]; ok {
			if _, have := env.vars[old]; !have {
				env.vars[old] = v
			}
		}
	}
	return env
}

func (ex *Exec) enterLoopHeader(st *State, fr *Frame, li *loopInfo, from *ssa.BasicBlock) ([]*State, bool) {
	isTop := fr.fn == ex.fn && len(st.frames) == 1
	var invs []*Clause
	var dec *Clause
	if isTop {
		invs = ex.fc.LoopInv[li.index]
		dec = ex.fc.LoopDec[li.index]
	}
	back := li.body[from]
	if ex.fc.Bound > 0 && len(invs) == 0 {
		// bounded unrolling
		if back {
			fr.unroll[li.header]++
			if fr.unroll[li.header] > ex.fc.Bound {
				st.trace = append(st.trace, fmt.Sprintf("loop %d: unwinding bound %d reached, path cut", li.index, ex.fc.Bound))
				ex.w.Note(fmt.Sprintf("bounded: %s loop %d cut at %d iterations", ex.fn.Name(), li.index, ex.fc.Bound))
				return nil, true
			}
		} else {
			fr.unroll[li.header] = 0
		}
		return nil, false
	}
	phiVals := map[ssa.Value]Term{}
	ex.evalPhisInto(st, fr, li.header, from, phiVals)
	if back {
		if le := fr.loopIn[li.header]; le != nil || true {
			env := ex.invEnv(st, fr, li.header, phiVals)
			for i, c := range invs {
				cv, err := env.Eval(c.Expr)
				if err != nil {
					ex.aborted = fmt.Sprintf("%s:%d: invariant: %v", c.File, c.Line, err)
					return nil, true
				}
				ex.addOb(st, "inv-preserve", ex.obName(fmt.Sprintf("loop%d.inv%d.preserve", li.index, i), c.Label), c.Src, li.header.Instrs[0].Pos(), cv.T)
			}
			if dec != nil && le != nil && le.hasDec {
				cv, err := env.Eval(dec.Expr)
				if err != nil {
					ex.aborted = fmt.Sprintf("%s:%d: decreases: %v", dec.File, dec.Line, err)
					return nil, true
				}
				ex.addOb(st, "decreases", ex.obName(fmt.Sprintf("loop%d.decreases", li.index), dec.Label), dec.Src, li.header.Instrs[0].Pos(), And(Lt(cv.T, le.dec), Ge(le.dec, IntLit(0))))
			}
		}
		if isTop {
			// the frame condition is an implicit invariant of every loop: preserved
			ex.frameCond(st, li.header.Instrs[0].Pos(), false)
		}
		return nil, true
	}
	if isTop {
		// ... and established
		ex.frameCond(st, li.header.Instrs[0].Pos(), false)
		// conditions that must hold when the loop is first reached
		for i, c := range ex.fc.LoopEntry[li.index] {
			eenv := ex.invEnv(st, fr, li.header, phiVals)
			cv, err := eenv.Eval(c.Expr)
			if err != nil {
				ex.aborted = fmt.Sprintf("%s:%d: loop entry: %v", c.File, c.Line, err)
				return nil, true
			}
			ex.addOb(st, "pre", ex.obName(fmt.Sprintf("loop%d.entry%d", li.index, i), c.Label), c.Src, li.header.Instrs[0].Pos(), cv.T)
		}
	}
	// entry: establish
	env := ex.invEnv(st, fr, li.header, phiVals)
	for i, c := range invs {
		cv, err := env.Eval(c.Expr)
		if err != nil {
			ex.aborted = fmt.Sprintf("%s:%d: invariant: %v", c.File, c.Line, err)
			return nil, true
		}
		ex.addOb(st, "inv-init", ex.obName(fmt.Sprintf("loop%d.inv%d.init", li.index, i), c.Label), c.Src, li.header.Instrs[0].Pos(), cv.T)
	}
	// havoc
	if li.all {
		ex.w.heapHavocAll(st.heap)
		if isTop {
			ex.reassumeStable(st)
		}
	} else {
		for _, n := range sortedKeys(li.mods) {
			oldA := ex.w.heapGet(st.heap, n, li.mods[n])
			na := ex.w.Fresh(n+"!loop", li.mods[n])
			if n == "BM" {
				// backing arrays never change their length
				st.assume(Term{fmt.Sprintf("(forall ((r!q Ref)) (! (= (blen (select %s r!q)) (blen (select %s r!q))) :pattern ((select %s r!q))))", na.S, oldA.S, na.S), SBool})
			}
			ex.w.heapSet(st.heap, n, na)
		}
		// arrays written only at objects allocated inside the loop: objects that
		// existed when the loop was entered keep their values
		for _, n := range sortedKeys(li.local) {
			if _, full := li.mods[n]; full {
				continue
			}
			srt := li.local[n]
			if k, _, ok := srt.IsArray(); !ok || k != SRef {
				ex.w.heapSet(st.heap, n, ex.w.Fresh(n+"!loop", srt))
				continue
			}
			oldA := ex.w.heapGet(st.heap, n, srt)
			na := ex.w.Fresh(n+"!loopl", srt)
			st.assume(Term{fmt.Sprintf("(forall ((r!q Ref)) (! (=> (<= (born r!q) %d) (= (select %s r!q) (select %s r!q))) :pattern ((select %s r!q))))", st.heap.clock, na.S, oldA.S, na.S), SBool})
			ex.w.heapSet(st.heap, n, na)
		}
	}
	for _, in := range li.header.Instrs {
		phi, ok := in.(*ssa.Phi)
		if !ok {
			break
		}
		name := phi.Comment
		if name == "" {
			name = phi.Name()
		}
		v := ex.w.Fresh("loop!"+name, ex.w.SortOf(phi.Type()))
		phiVals[phi] = v
		ex.assumeTyped(st, v, phi.Type())
	}
	env = ex.invEnv(st, fr, li.header, phiVals)
	for _, c := range invs {
		cv, err := env.Eval(c.Expr)
		if err != nil {
			ex.aborted = fmt.Sprintf("%s:%d: invariant: %v", c.File, c.Line, err)
			return nil, true
		}
		st.assume(cv.T)
	}
	if isTop {
		ex.frameCond(st, li.header.Instrs[0].Pos(), true)
	}
	le := &loopEntry{}
	if dec != nil {
		cv, err := env.Eval(dec.Expr)
		if err == nil {
			le.dec, le.hasDec = cv.T, true
		}
	}
	fr.loopIn[li.header] = le
	// install phis and skip them
	n := 0
	for _, in := range li.header.Instrs {
		phi, ok := in.(*ssa.Phi)
		if !ok {
			break
		}
		fr.regs[phi] = phiVals[phi]
		n++
	}
	fr.idx = n
	st.trace = append(st.trace, fmt.Sprintf("loop %d header (arbitrary iteration)", li.index))
	return nil, false
}

func (ex *Exec) obName(base, label string) string {
	if label != "" {
		return label
	}
	return ex.fn.Name() + "." + base
}

// ---------- operands ----------

func constInt(c *ssa.Const) (string, bool) {
	if c.Value == nil {
		return "", false
	}
	if c.Value.Kind() == constant.Int {
		return c.Value.ExactString(), true
	}
	if c.Value.Kind() == constant.Float {
		if i := constant.ToInt(c.Value); i.Kind() == constant.Int {
			return i.ExactString(), true
		}
	}
	return "", false
}

func (ex *Exec) constTerm(c *ssa.Const) Term {
	w := ex.w
	t := c.Type()
	if c.Value == nil {
		return w.Zero(t)
	}
	switch u := t.Underlying().(type) {
	case *types.Basic:
		switch {
		case u.Info()&types.IsBoolean != 0:
			return BoolLit(constant.BoolVal(c.Value))
		case u.Info()&types.IsInteger != 0:
			if s, ok := constInt(c); ok {
				return IntLitStr(s)
			}
		case u.Info()&types.IsString != 0:
			return w.StrLit(constant.StringVal(c.Value))
		case u.Info()&types.IsFloat != 0:
			f, _ := constant.Float64Val(c.Value)
			r := new(big.Rat)
			r.SetFloat64(f)
			if r.Sign() < 0 {
				r.Neg(r)
				return Term{fmt.Sprintf("(- (/ %s.0 %s.0))", r.Num().String(), r.Denom().String()), SReal}
			}
			return Term{fmt.Sprintf("(/ %s.0 %s.0)", r.Num().String(), r.Denom().String()), SReal}
		}
	}
	if _, ok := t.(*types.TypeParam); ok {
		return w.Zero(t)
	}
	w.Note("constant of unsupported type " + t.String())
	return w.Fresh("const", w.SortOf(t))
}

func (ex *Exec) operand(st *State, fr *Frame, v ssa.Value) Term {
	w := ex.w
	switch x := v.(type) {
	case *ssa.Const:
		return ex.constTerm(x)
	case *ssa.Global:
		return ex.globalAddr(x)
	case *ssa.Function:
		return w.FuncRef(x)
	case *ssa.Builtin:
		return w.Fresh("builtin", SRef)
	}
	if t, ok := fr.regs[v]; ok {
		return t
	}
	// value from an enclosing frame? (should not happen: free vars are bound)
	w.Note(fmt.Sprintf("unbound SSA value %s in %s", v.Name(), fr.fn.Name()))
	t := w.Fresh("unbound!"+v.Name(), w.SortOf(v.Type()))
	fr.regs[v] = t
	return t
}

func (ex *Exec) globalAddr(g *ssa.Global) Term {
	w := ex.w
	name := "glob!" + g.String()
	if w.D.Has(name) {
		return Term{smtSym(name), SRef}
	}
	t := w.D.Const(name, SRef)
	elemT := deref(g.Type())
	w.addr[t.S] = &Addr{Kind: "global", Base: t, Elem: w.SortOf(elemT), G: g}
	ex.markGlobalRO(g)
	return t
}

// ---------- typed assumptions ----------

func intBounds(t types.Type) (lo, hi *big.Int, ok bool) {
	b, isB := t.Underlying().(*types.Basic)
	if !isB || b.Info()&types.IsInteger == 0 {
		return nil, nil, false
	}
	bits := 64
	switch b.Kind() {
	case types.Int8, types.Uint8:
		bits = 8
	case types.Int16, types.Uint16:
		bits = 16
	case types.Int32, types.Uint32:
		bits = 32
	}
	one := big.NewInt(1)
	if b.Info()&types.IsUnsigned != 0 {
		hi = new(big.Int).Lsh(one, uint(bits))
		hi.Sub(hi, one)
		return big.NewInt(0), hi, true
	}
	hi = new(big.Int).Lsh(one, uint(bits-1))
	lo = new(big.Int).Neg(hi)
	hi = new(big.Int).Sub(hi, one)
	return lo, hi, true
}

func isUnsigned(t types.Type) bool {
	b, ok := t.Underlying().(*types.Basic)
	return ok && b.Info()&types.IsUnsigned != 0
}

func intBits(t types.Type) int {
	b, ok := t.Underlying().(*types.Basic)
	if !ok {
		return 64
	}
	switch b.Kind() {
	case types.Int8, types.Uint8:
		return 8
	case types.Int16, types.Uint16:
		return 16
	case types.Int32, types.Uint32:
		return 32
	}
	return 64
}

func pow2(n int) Term {
	return IntLitStr(new(big.Int).Lsh(big.NewInt(1), uint(n)).String())
}

func (ex *Exec) assumeTyped(st *State, t Term, gt types.Type) {
	ex.assumeTypedB(st, t, gt, st.heap.clock)
}

func (ex *Exec) assumeTypedB(st *State, t Term, gt types.Type, bound int) {
	if _, ok := t.isIntLit(); ok {
		return
	}
	if lo, hi, ok := intBounds(gt); ok {
		st.assume(And(Le(IntLitStr(lo.String()), t), Le(t, IntLitStr(hi.String()))))
		return
	}
	if t.Sort == SRef {
		if _, isAlloc := ex.w.addr[t.S]; !isAlloc && !strings.HasPrefix(t.S, "|new!") && !strings.HasPrefix(t.S, "new!") {
			ex.assumeBorn(st, t, bound)
		}
		if pt, ok := gt.Underlying().(*types.Pointer); ok {
			if at, ok := pt.Elem().Underlying().(*types.Array); ok && isByte(at.Elem()) && t.S != "nil" {
				// a non-nil *[N]byte points to N bytes (type invariant)
				bm := ex.w.heapGet(st.heap, "BM", ArraySort(SRef, SBytes))
				st.assume(Implies(Not(Eq(t, TNil)), Eq(BLen(Select(bm, ex.bmKey(t))), IntLit(at.Len()))))
			}
		}
		return
	}
	if _, ok := gt.Underlying().(*types.Slice); ok {
		if strings.HasPrefix(t.S, "(mkslice ") {
			return
		}
		ex.assumeBorn(st, SBase(t), bound)
		st.assume(And(Le(IntLit(0), SOff(t)), Le(IntLit(0), SLen(t)), Le(SLen(t), SCap(t)), Le(SCap(t), IntLitStr("9223372036854775807")),
			Implies(Eq(SBase(t), TNil), And(Eq(SLen(t), IntLit(0)), Eq(SCap(t), IntLit(0))))))
		if isByteSlice(gt) {
			bm := ex.w.heapGet(st.heap, "BM", ArraySort(SRef, SBytes))
			st.assume(Le(Add(SOff(t), SCap(t)), BLen(Select(bm, SBase(t)))))
		}
		return
	}
	if at, ok := gt.Underlying().(*types.Array); ok && isByte(at.Elem()) {
		st.assume(Eq(BLen(t), IntLit(at.Len())))
	}
}

// ---------- memory ----------

func (ex *Exec) fieldAddr(base Term, structT types.Type, idx int) Term {
	w := ex.w
	st := structT.Underlying().(*types.Struct)
	f := st.Field(idx)
	fname := "fld!" + w.structName(structT) + "." + f.Name()
	sym := w.D.Fun(fname, []Sort{SRef}, SRef)
	if w.fldTags == nil {
		w.fldTags = map[string]int{}
	}
	if _, ok := w.fldTags[sym]; !ok {
		w.fldTags[sym] = len(w.fldTags) + 1
	}
	t := App(SRef, sym, base)
	if _, ok := w.addr[t.S]; ok {
		return t
	}
	ft := f.Type()
	if _, isStruct := asStruct(ft); isStruct {
		w.addr[t.S] = &Addr{Kind: "struct", Base: t}
		return t
	}
	if isByteArray(ft) {
		// the field's bytes live in BM at the field address
		w.addr[t.S] = &Addr{Kind: "cell", Array: "BM", ASort: ArraySort(SRef, SBytes), Base: t, Elem: SBytes}
		return t
	}
	an, as := w.FieldArray(structT, idx)
	w.addr[t.S] = &Addr{Kind: "field", Array: an, ASort: as, Base: base, Elem: w.SortOf(ft)}
	return t
}

// loadBound returns the born-bound of values read through addr.
func (ex *Exec) loadBound(h *Heap, addr Term, t types.Type) int {
	w := ex.w
	a := w.addr[addr.S]
	if a == nil || a.Kind == "struct" || a.Kind == "global" {
		if a != nil && a.Kind == "global" && w.globalsRO[a.G] {
			return 1
		}
		n, _ := w.CellArray(t)
		return h.boundOf(n)
	}
	if a.Kind == "belem" {
		return 1
	}
	return h.boundOf(a.Array)
}

func (ex *Exec) load(st *State, h *Heap, addr Term, t types.Type) Term {
	w := ex.w
	if stt, ok := asStruct(t); ok {
		fs := make([]Term, stt.NumFields())
		for i := range fs {
			fs[i] = ex.load(st, h, ex.fieldAddr(addr, t, i), stt.Field(i).Type())
		}
		return w.StructMk(t, fs)
	}
	a := w.addr[addr.S]
	if a == nil || a.Kind == "struct" || a.Kind == "global" {
		if a != nil && a.Kind == "global" && w.globalsRO[a.G] && !isByteArray(t) {
			// (a byte-array global is read through its address by callees: keep the one
			// representation BM[address], or contract and code would speak of different things)
			v := ex.roGlobalVal(a.G)
			if _, isMap := t.Underlying().(*types.Map); isMap && st != nil {
				ex.assumeTable(st, a.G, v)
			}
			return v
		}
		n, s := w.CellArray(t)
		return Select(w.heapGet(h, n, s), addr)
	}
	switch a.Kind {
	case "field", "cell":
		return Select(w.heapGet(h, a.Array, a.ASort), a.Base)
	case "belem":
		return BAt(Select(w.heapGet(h, "BM", ArraySort(SRef, SBytes)), a.Base), a.Idx)
	case "elem":
		return Select(Select(w.heapGet(h, a.Array, a.ASort), a.Base), a.Idx)
	}
	panic("load: bad addr kind " + a.Kind)
}

func (ex *Exec) roGlobalVal(g *ssa.Global) Term {
	w := ex.w
	name := "gval!" + g.String()
	t := w.D.Const(name, w.SortOf(deref(g.Type())))
	if isErrorType(deref(g.Type())) && (strings.HasPrefix(g.Name(), "Err") || g.Name() == "EOF") {
		found := false
		for _, e := range w.roErrGlobals {
			if e == t.S {
				found = true
			}
		}
		if !found {
			w.roErrGlobals = append(w.roErrGlobals, t.S)
		}
	}
	return t
}

func (ex *Exec) store(st *State, addr Term, val Term, t types.Type) {
	w := ex.w
	h := st.heap
	if stt, ok := asStruct(t); ok {
		for i := 0; i < stt.NumFields(); i++ {
			ex.store(st, ex.fieldAddr(addr, t, i), w.StructGet(t, val, i), stt.Field(i).Type())
		}
		return
	}
	a := w.addr[addr.S]
	if a == nil || a.Kind == "struct" || a.Kind == "global" {
		n, s := w.CellArray(t)
		ex.recLoc(frameLoc{Array: n, Key: addr})
		w.heapSet(h, n, Store(w.heapGet(h, n, s), addr, val))
		return
	}
	switch a.Kind {
	case "field", "cell":
		ex.recLoc(frameLoc{Array: a.Array, Key: a.Base})
		w.heapSet(h, a.Array, Store(w.heapGet(h, a.Array, a.ASort), a.Base, val))
	case "belem":
		ex.recLoc(frameLoc{Array: "BM", Key: a.Base, Range: true, Off: a.Idx, Len: IntLit(1)})
		bm := w.heapGet(h, "BM", ArraySort(SRef, SBytes))
		w.heapSet(h, "BM", Store(bm, a.Base, App(SBytes, "bset", Select(bm, a.Base), a.Idx, val)))
	case "elem":
		ex.recLoc(frameLoc{Array: a.Array, Key: a.Base, Range: true, Off: a.Idx, Len: IntLit(1)})
		arr := w.heapGet(h, a.Array, a.ASort)
		w.heapSet(h, a.Array, Store(arr, a.Base, Store(Select(arr, a.Base), a.Idx, val)))
	default:
		panic("store: bad addr kind " + a.Kind)
	}
}

func (ex *Exec) allocRef(st *State, hint string) Term {
	r := ex.w.Fresh("new!"+hint, SRef)
	st.heap.clock++
	st.assume(Not(Eq(r, TNil)))
	st.assume(Eq(App(SInt, "born", r), IntLit(int64(st.heap.clock))))
	st.assume(Eq(App(SInt, "addrtag", r), IntLit(0))) // an allocated object is not the address of a field
	st.allocs = append(st.allocs, r)
	// every reference stored anywhere in the heap right now is older than r
	c := int64(st.heap.clock)
	for _, name := range sortedKeys(ex.w.heapArrays) {
		if name == "LockState" || name == "ChanCap" || name == "ChanSends" || name == "BM" {
			continue
		}
		s := ex.w.heapArrays[name]
		k1, v1, ok := s.IsArray()
		if !ok || k1 != SRef {
			continue
		}
		arr := ex.w.heapGet(st.heap, name, s)
		switch {
		case v1 == SRef:
			st.assume(Term{fmt.Sprintf("(forall ((r!q Ref)) (! (=> (< (born r!q) %d) (< (born (select %s r!q)) %d)) :pattern ((select %s r!q))))", c, arr.S, c, arr.S), SBool})
		case v1 == SSlice:
			st.assume(Term{fmt.Sprintf("(forall ((r!q Ref)) (! (=> (< (born r!q) %d) (< (born (sbase (select %s r!q))) %d)) :pattern ((select %s r!q))))", c, arr.S, c, arr.S), SBool})
		default:
			if k2, v2, ok2 := v1.IsArray(); ok2 && v2 == SRef {
				st.assume(Term{fmt.Sprintf("(forall ((r!q Ref) (k!q %s)) (! (=> (< (born r!q) %d) (< (born (select (select %s r!q) k!q)) %d)) :pattern ((select (select %s r!q) k!q))))", k2, c, arr.S, c, arr.S), SBool})
			}
		}
	}
	return r
}

// assumeBorn: a reference obtained from the environment (parameter, heap,
// call result) was allocated no later than now.
func (ex *Exec) assumeBorn(st *State, r Term, bound int) {
	if r.S == "nil" {
		return
	}
	st.assume(Le(App(SInt, "born", r), IntLit(int64(bound))))
}

func (ex *Exec) byteContent(h *Heap, s Term) Term {
	bm := ex.w.heapGet(h, "BM", ArraySort(SRef, SBytes))
	return BSlice(Select(bm, SBase(s)), SOff(s), Add(SOff(s), SLen(s)))
}

// addrRoot follows field/element address computations back to an allocation.
func addrRoot(v ssa.Value) *ssa.Alloc {
	for i := 0; i < 16; i++ {
		switch x := v.(type) {
		case *ssa.Alloc:
			return x
		case *ssa.FieldAddr:
			v = x.X
		case *ssa.IndexAddr:
			if _, isPtr := x.X.Type().Underlying().(*types.Pointer); isPtr {
				v = x.X
			} else {
				return nil
			}
		default:
			return nil
		}
	}
	return nil
}
