package main

import (
	"fmt"
	"go/ast"
	"go/constant"
	"go/types"
	"strings"

	"golang.org/x/tools/go/ssa"
)

// Constant tables: a package-level map initialised by a composite literal with
// constant keys, never reassigned and never updated outside the initialiser
// (checked), has exactly the content of its literal. The literal is read from
// the type-checked syntax of the working tree on every run - the same text the
// compiler turns into the package initialiser - and becomes facts about the map
// whenever the global is read: which keys are present and, per key, the value:
// a struct whose fields are function identifiers (function references) or
// &T{} (a non-nil object of dynamic type *T). Other field shapes stay arbitrary.

type tableEntry struct {
	key    Term
	fields []Term // struct field values, nil = unconstrained
}

type tableInfo struct {
	mt      *types.Map
	entries []tableEntry
	why     string // non-empty: not a constant table (facts withheld)
}

func (w *World) tableOf(g *ssa.Global) *tableInfo {
	if w.tables == nil {
		w.tables = map[*ssa.Global]*tableInfo{}
	}
	if ti, ok := w.tables[g]; ok {
		return ti
	}
	ti := &tableInfo{}
	w.tables[g] = ti
	mt, ok := deref(g.Type()).Underlying().(*types.Map)
	if !ok {
		ti.why = "not a map"
		return ti
	}
	ti.mt = mt
	stt, isStruct := asStruct(mt.Elem())
	// find the literal
	var lit *ast.CompositeLit
	var info *types.Info
	for _, p := range w.Pkgs {
		if p.Types != g.Pkg.Pkg {
			continue
		}
		info = p.TypesInfo
		for _, f := range p.Syntax {
			for _, d := range f.Decls {
				gd, ok := d.(*ast.GenDecl)
				if !ok {
					continue
				}
				for _, s := range gd.Specs {
					vs, ok := s.(*ast.ValueSpec)
					if !ok {
						continue
					}
					for i, n := range vs.Names {
						if n.Name == g.Name() && i < len(vs.Values) {
							if cl, ok := vs.Values[i].(*ast.CompositeLit); ok {
								lit = cl
							}
						}
					}
				}
			}
		}
	}
	if lit == nil || info == nil {
		ti.why = "no composite literal initialiser"
		return ti
	}
	// the map is only written by its initialiser
	for _, m := range g.Pkg.Members {
		fn, ok := m.(*ssa.Function)
		if !ok {
			continue
		}
		fns := append([]*ssa.Function{fn}, fn.AnonFuncs...)
		for _, f := range fns {
			if f.Name() == "init" {
				continue
			}
			for _, b := range f.Blocks {
				for _, in := range b.Instrs {
					switch x := in.(type) {
					case *ssa.Store:
						if x.Addr == ssa.Value(g) {
							ti.why = "reassigned in " + f.Name()
							return ti
						}
					case *ssa.MapUpdate:
						if u, ok := x.Map.(*ssa.UnOp); ok && u.X == ssa.Value(g) {
							ti.why = "updated in " + f.Name()
							return ti
						}
					}
				}
			}
		}
	}
	for _, el := range lit.Elts {
		kv, ok := el.(*ast.KeyValueExpr)
		if !ok {
			ti.why = "element without key"
			return ti
		}
		tv, ok := info.Types[kv.Key]
		if !ok || tv.Value == nil {
			ti.why = "non-constant key"
			return ti
		}
		var key Term
		switch tv.Value.Kind() {
		case constant.Int:
			key = IntLitStr(tv.Value.ExactString())
		case constant.String:
			key = w.StrLit(constant.StringVal(tv.Value))
		default:
			ti.why = "unsupported key kind"
			return ti
		}
		ent := tableEntry{key: key}
		if isStruct {
			ent.fields = make([]Term, stt.NumFields())
			if vl, ok := kv.Value.(*ast.CompositeLit); ok {
				for _, fe := range vl.Elts {
					fkv, ok := fe.(*ast.KeyValueExpr)
					if !ok {
						continue
					}
					fid, ok := fkv.Key.(*ast.Ident)
					if !ok {
						continue
					}
					idx := -1
					for i := 0; i < stt.NumFields(); i++ {
						if stt.Field(i).Name() == fid.Name {
							idx = i
						}
					}
					if idx < 0 {
						continue
					}
					switch v := fkv.Value.(type) {
					case *ast.Ident:
						if fo, ok := info.Uses[v].(*types.Func); ok {
							if fn := w.Prog.FuncValue(fo); fn != nil {
								ent.fields[idx] = w.FuncRef(fn)
							}
						}
					case *ast.UnaryExpr:
						if cl, ok := v.X.(*ast.CompositeLit); ok && len(cl.Elts) == 0 {
							if tt, ok := info.Types[v]; ok {
								obj := w.D.Const(fmt.Sprintf("tbl!%s!%s!%s", g.Name(), strings.Trim(key.S, "|"), fid.Name), SRef)
								w.tblObjs = append(w.tblObjs, tblObj{obj, w.TypeID(tt.Type)})
								ent.fields[idx] = obj
							}
						}
					}
				}
			}
		}
		ti.entries = append(ti.entries, ent)
	}
	return ti
}

type tblObj struct {
	ref    Term
	typeID int
}

// assumeTable states the content of a constant table in the current heap.
func (ex *Exec) assumeTable(st *State, g *ssa.Global, mapRef Term) {
	w := ex.w
	ti := w.tableOf(g)
	if ti.why != "" || ti.mt == nil {
		return
	}
	pn, ps, vn, vs := w.MapArrays(ti.mt)
	P := Select(w.heapGet(st.heap, pn, ps), mapRef)
	V := Select(w.heapGet(st.heap, vn, vs), mapRef)
	ks := w.SortOf(ti.mt.Key())
	var eqs []string
	for _, e := range ti.entries {
		eqs = append(eqs, fmt.Sprintf("(= k!q %s)", e.key.S))
	}
	if len(eqs) == 0 {
		eqs = []string{"false"}
	}
	st.assume(Not(Eq(mapRef, TNil)))
	st.assume(Term{fmt.Sprintf("(forall ((k!q %s)) (! (= (select %s k!q) (or %s)) :pattern ((select %s k!q))))", ks, P.S, strings.Join(eqs, " "), P.S), SBool})
	stt, isStruct := asStruct(ti.mt.Elem())
	for _, e := range ti.entries {
		if !isStruct {
			continue
		}
		val := Select(V, e.key)
		for i, f := range e.fields {
			if f.S == "" {
				continue
			}
			st.assume(Eq(w.StructGet(ti.mt.Elem(), val, i), f))
			_ = stt
		}
	}
	for _, o := range w.tblObjs {
		st.assume(And(Not(Eq(o.ref, TNil)), Eq(App(SInt, "dyntype", o.ref), IntLit(int64(o.typeID)))))
	}
	w.Note(fmt.Sprintf("constant table %s: %d entries read from its literal", g.Name(), len(ti.entries)))
}
