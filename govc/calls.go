package main

import (
	"fmt"
	"go/token"
	"go/types"
	"strings"

	"golang.org/x/tools/go/ssa"
)

// policy for calls without a contract: by package path prefix of the callee.
// "pure": results are uninterpreted functions of the arguments, no effects.
// "noeffect": results arbitrary, no effect on modelled state.
// "havoc": results arbitrary, all modelled heap havoced.
var defaultPolicies = []struct{ prefix, policy string }{
	{"go.uber.org/zap", "noeffect"},
	{"berty.tech/weshnet/v2/pkg/tyber", "noeffect"},
	{"berty.tech/weshnet/v2/pkg/logutil", "noeffect"},
	{"berty.tech/weshnet/v2/pkg/errcode", "noeffect"},
	{"go.opentelemetry.io", "noeffect"},
	{"github.com/prometheus", "noeffect"},
	{"fmt", "noeffect"},
	{"errors", "noeffect"},
	{"log", "noeffect"},
	{"strings", "pure"},
	{"strconv", "pure"},
	{"bytes", "pure"},
	{"unicode", "pure"},
	{"encoding/hex", "pure"},
	{"encoding/base64", "pure"},
	{"math", "pure"},
	{"sort", "noeffect"},
	{"context", "noeffect"},
	{"time", "noeffect"},
	{"runtime", "noeffect"},
	{"sync/atomic", "havoc"},
}

func (ex *Exec) calleeName(c *ssa.CallCommon) (full string, pkgPath string, rel string, fn *ssa.Function) {
	if c.IsInvoke() {
		recv := types.TypeString(c.Value.Type(), nil)
		full = "(" + recv + ")." + c.Method.Name()
		if c.Method.Pkg() != nil {
			pkgPath = c.Method.Pkg().Path()
		}
		// interface declared in another package than the method's (embedded) — use the named type's package
		if n, ok := c.Value.Type().(*types.Named); ok && n.Obj().Pkg() != nil {
			pkgPath = n.Obj().Pkg().Path()
		}
		return
	}
	fn = c.StaticCallee()
	if fn == nil {
		return "", "", "", nil
	}
	o := fn
	if fn.Origin() != nil {
		o = fn.Origin()
	}
	full = o.String()
	if o.Pkg != nil {
		pkgPath = o.Pkg.Pkg.Path()
		rel = o.RelString(o.Pkg.Pkg)
	} else if o.Object() != nil && o.Object().Pkg() != nil {
		pkgPath = o.Object().Pkg().Path()
		rel = o.RelString(o.Object().Pkg())
	}
	return
}

func (ex *Exec) lookupContract(c *ssa.CallCommon) (*FuncContract, *ssa.Function) {
	cs := ex.w.CS
	full, pkgPath, rel, fn := ex.calleeName(c)
	if full == "" {
		return nil, nil
	}
	if fn != nil && rel != "" {
		if fc, ok := cs.Funcs[pkgPath+"::"+rel]; ok {
			return fc, fn
		}
	}
	if fc, ok := cs.Externs[full]; ok {
		return fc, fn
	}
	if c.IsInvoke() {
		// anonymous interface / any receiver: "(_).Method"
		if fc, ok := cs.Externs["(_)."+c.Method.Name()]; ok {
			return fc, nil
		}
	}
	return nil, fn
}

func (ex *Exec) policyFor(c *ssa.CallCommon) string {
	_, pkgPath, _, fn := ex.calleeName(c)
	if !c.IsInvoke() && fn == nil {
		return "havoc"
	}
	for _, p := range defaultPolicies {
		if pkgPath == p.prefix || strings.HasPrefix(pkgPath, p.prefix+"/") {
			return p.policy
		}
	}
	return "havoc"
}

// modArrayNames resolves, statically, which heap arrays a modifies expression may touch.
func (ex *Exec) modArrayNames(fc *FuncContract, c *ssa.CallCommon, e CExpr) (map[string]Sort, bool) {
	w := ex.w
	out := map[string]Sort{}
	switch n := e.(type) {
	case *CCall:
		if n.Fn == "bytes" {
			out["BM"] = ArraySort(SRef, SBytes)
			return out, true
		}
		if g, ok := w.CS.Ghosts[n.Fn]; ok {
			if len(g.Params) == 1 {
				out["G_"+n.Fn] = ArraySort(g.Params[0], g.Result)
			} else {
				out["G_"+n.Fn] = g.Result
			}
			return out, true
		}
		if n.Fn == "sends" {
			out["ChanSends"] = ArraySort(SRef, SInt)
			return out, true
		}
		if n.Fn == "every" {
			if an, as, ok := ex.everyArray(n); ok {
				out[an] = as
				return out, true
			}
		}
		if n.Fn == "lockstate" {
			if g, ok := w.CS.Ghosts["lockgen"]; ok && len(g.Params) == 1 {
				out["G_lockgen"] = ArraySort(g.Params[0], g.Result)
			}
			out["LockState"] = ArraySort(SRef, SInt)
			return out, true
		}
		if n.Fn == "elems" && len(n.Args) == 1 {
			if t := ex.staticTypeOf(fc, c, n.Args[0]); t != nil {
				if sl, ok := t.Underlying().(*types.Slice); ok {
					an, as := w.ElemArray(sl.Elem())
					out[an] = as
					return out, true
				}
			}
		}
		if n.Fn == "mapof" && len(n.Args) == 1 {
			if t := ex.staticTypeOf(fc, c, n.Args[0]); t != nil {
				if mt, ok := t.Underlying().(*types.Map); ok {
					pn, ps, vn, vs := w.MapArrays(mt)
					out[pn] = ps
					out[vn] = vs
					return out, true
				}
			}
		}
		if n.Fn == "deref" && len(n.Args) == 1 {
			if t := ex.staticTypeOf(fc, c, n.Args[0]); t != nil {
				li := &loopInfo{mods: out}
				ex.typeMods(deref(t), li)
				return out, true
			}
		}
	case *CIdent:
		if g, ok := w.CS.Ghosts[n.Name]; ok && len(g.Params) == 0 {
			out["G_"+n.Name] = g.Result
			return out, true
		}
	case *CSel:
		// x.f where x is a parameter of the callee: type from the signature
		if t := ex.staticTypeOf(fc, c, n.X); t != nil {
			st := deref(t)
			if s, ok := asStruct(st); ok {
				for i := 0; i < s.NumFields(); i++ {
					if s.Field(i).Name() == n.Field {
						an, as := w.FieldArray(st, i)
						out[an] = as
						return out, true
					}
				}
			}
		}
	}
	return nil, false
}

func (ex *Exec) staticTypeOf(fc *FuncContract, c *ssa.CallCommon, e CExpr) types.Type {
	id, ok := e.(*CIdent)
	if !ok {
		if call, ok := e.(*CCall); ok && call.Fn == "as" && len(call.Args) == 2 {
			if sl, ok := call.Args[1].(*CStr); ok {
				name := strings.TrimPrefix(sl.Val, "*")
				var t types.Type
				if pk := ex.pkgOf(fc, nil); pk != nil && !strings.Contains(name, ".") {
					if obj := pk.Pkg.Scope().Lookup(name); obj != nil {
						t = obj.Type()
						if strings.HasPrefix(sl.Val, "*") {
							t = types.NewPointer(t)
						}
					}
				}
				if t == nil {
					t = ex.lookupTypeByString(sl.Val)
				}
				return t
			}
			return nil
		}
		if call, ok := e.(*CCall); ok && call.Fn == "addr" && len(call.Args) == 1 {
			if t := ex.staticTypeOf(fc, c, call.Args[0]); t != nil {
				return types.NewPointer(t)
			}
			return nil
		}
		if sel, ok := e.(*CSel); ok {
			bt := ex.staticTypeOf(fc, c, sel.X)
			if bt == nil {
				return nil
			}
			if s, ok := asStruct(deref(bt)); ok {
				for i := 0; i < s.NumFields(); i++ {
					if s.Field(i).Name() == sel.Field {
						return s.Field(i).Type()
					}
				}
			}
		}
		return nil
	}
	names, tys := ex.paramNamesTypes(fc, c)
	for i, n := range names {
		if n == id.Name {
			return tys[i]
		}
	}
	return nil
}

// paramNamesTypes gives the names and types of all arguments (receiver first).
func (ex *Exec) paramNamesTypes(fc *FuncContract, c *ssa.CallCommon) ([]string, []types.Type) {
	var names []string
	var tys []types.Type
	sig := c.Signature()
	if c.IsInvoke() {
		names = append(names, "recv")
		tys = append(tys, c.Value.Type())
		for i := 0; i < sig.Params().Len(); i++ {
			names = append(names, sig.Params().At(i).Name())
			tys = append(tys, sig.Params().At(i).Type())
		}
	} else if fn := c.StaticCallee(); fn != nil {
		for _, p := range fn.Params {
			names = append(names, p.Name())
			tys = append(tys, p.Type())
		}
		if len(fn.Params) == 0 && len(c.Args) > 0 {
			// function without body information: use signature
			if sig.Recv() != nil {
				names = append(names, sig.Recv().Name())
				tys = append(tys, sig.Recv().Type())
			}
			for i := 0; i < sig.Params().Len(); i++ {
				names = append(names, sig.Params().At(i).Name())
				tys = append(tys, sig.Params().At(i).Type())
			}
		}
	} else {
		for i := 0; i < sig.Params().Len(); i++ {
			names = append(names, sig.Params().At(i).Name())
			tys = append(tys, sig.Params().At(i).Type())
		}
	}
	if fc != nil && len(fc.Params) > 0 {
		for i := range names {
			if i < len(fc.Params) {
				names[i] = fc.Params[i]
			}
		}
	}
	return names, tys
}

func (ex *Exec) doCall(st *State, fr *Frame, c *ssa.CallCommon, instr ssa.Value, d *deferred) ([]*State, bool) {
	w := ex.w
	// builtin?
	if b, ok := c.Value.(*ssa.Builtin); ok {
		var args []Term
		if d != nil {
			args = d.args
		} else {
			for _, a := range c.Args {
				args = append(args, ex.operand(st, fr, a))
			}
		}
		return ex.builtin(st, fr, b, c, args, instr)
	}
	{
		p := token.NoPos
		if instr != nil {
			p = instr.Pos()
		} else if d != nil {
			p = d.pos
		}
		ex.lockOrderCall(st, fr, c, p)
	}
	// gather arguments (receiver first)
	var args []Term
	var fnv Term
	if d != nil {
		fnv = d.fnv
		if c.IsInvoke() {
			args = append(args, d.fnv)
		}
		args = append(args, d.args...)
	} else {
		if c.IsInvoke() {
			args = append(args, ex.operand(st, fr, c.Value))
		} else if c.StaticCallee() == nil {
			fnv = ex.operand(st, fr, c.Value)
		} else if _, isClo := c.Value.(*ssa.MakeClosure); isClo {
			fnv = ex.operand(st, fr, c.Value)
		}
		for _, a := range c.Args {
			args = append(args, ex.operand(st, fr, a))
		}
	}
	pos := token.NoPos
	if instr != nil {
		pos = instr.Pos()
	} else if d != nil {
		pos = d.pos
	}
	if c.IsInvoke() {
		ex.safety(st, "nil-interface-call", pos, Not(Eq(args[0], TNil)))
	}

	// closure or anonymous function of the current function: inline
	var target *ssa.Function
	var binds []Term
	if !c.IsInvoke() {
		if sc := c.StaticCallee(); sc != nil {
			target = sc
			if mc, ok := c.Value.(*ssa.MakeClosure); ok {
				binds = st.cloBind[ex.operand(st, fr, mc).S]
			}
		} else if !fnv.IsZero() {
			if mc, ok := st.closures[fnv.S]; ok {
				target = mc.Fn.(*ssa.Function)
				binds = st.cloBind[fnv.S]
			} else if f, ok := w.fnByRef[fnv.S]; ok {
				target = f
			}
		}
	}
	if target != nil && target.Parent() != nil && ex.shouldInline(target) {
		if len(st.frames) > 40 {
			panic("inline depth")
		}
		nf := &Frame{fn: target, regs: map[ssa.Value]Term{}, tuples: map[ssa.Value][]Term{}, env: map[string]envEntry{}, loopIn: map[*ssa.BasicBlock]*loopEntry{}, unroll: map[*ssa.BasicBlock]int{}}
		for i, p := range target.Params {
			if i < len(args) {
				nf.regs[p] = args[i]
			}
		}
		for i, fv := range target.FreeVars {
			if i < len(binds) {
				nf.regs[fv] = binds[i]
			} else {
				nf.regs[fv] = w.Fresh("freevar!"+fv.Name(), w.SortOf(fv.Type()))
			}
		}
		nf.block = target.Blocks[0]
		nf.retTo = instr
		nf.isDefer = d != nil
		st.frames = append(st.frames, nf)
		return nil, false
	}

	fc, callee := ex.lookupContract(c)
	if fc == nil && target != nil && target != callee {
		// dynamic call resolved to a known function
		fake := &ssa.CallCommon{Value: target, Args: c.Args}
		fc, callee = ex.lookupContract(fake)
	}
	res := ex.applyCall(st, fr, c, fc, callee, args, pos, fnv)
	if fc != nil && fc.NoReturn {
		return nil, true
	}
	if d != nil {
		return ex.runDefers(st, fr)
	}
	if instr != nil {
		rs := c.Signature().Results()
		if rs.Len() == 1 {
			fr.regs[instr] = res[0]
		} else if rs.Len() > 1 {
			fr.tuples[instr] = res
		}
	}
	return nil, false
}

// calledField: the name of the struct field a called function value was read from ("" if it was not).
func calledField(v ssa.Value) string {
	fieldName := func(t types.Type, i int) string {
		if p, ok := t.Underlying().(*types.Pointer); ok {
			t = p.Elem()
		}
		if s, ok := t.Underlying().(*types.Struct); ok && i < s.NumFields() {
			return s.Field(i).Name()
		}
		return ""
	}
	switch x := v.(type) {
	case *ssa.Field:
		return fieldName(x.X.Type(), x.Field)
	case *ssa.UnOp:
		if fa, ok := x.X.(*ssa.FieldAddr); ok && x.Op == token.MUL {
			return fieldName(fa.X.Type(), fa.Field)
		}
	}
	return ""
}

func (ex *Exec) shouldInline(fn *ssa.Function) bool {
	return len(fn.Blocks) > 0
}

// applyCall applies the contract (or the default policy) of a call; returns result terms.
func (ex *Exec) applyCall(st *State, fr *Frame, c *ssa.CallCommon, fc *FuncContract, callee *ssa.Function, args []Term, pos token.Pos, fnv Term) []Term {
	w := ex.w
	sig := c.Signature()
	rs := sig.Results()
	full, _, _, _ := ex.calleeName(c)
	if full == "" {
		full = "dynamic call"
		if !fnv.IsZero() {
			if ft, ok := ex.funcTypeContract(c); ok {
				fc = ft
				full = "functype " + ft.Name
			}
			for pn, cn := range ex.fc.ParamContracts {
				if strings.HasPrefix(pn, ".") {
					// calls .Field as C: a call of the function value read from a struct field of that name
					if calledField(c.Value) == pn[1:] {
						if pc, ok := ex.w.CS.Externs[cn]; ok {
							fc = pc
							full = "field " + pn + " as " + cn
						}
					}
					continue
				}
				if pv, ok := ex.params[pn]; ok && pv.T.S == fnv.S {
					if pc, ok := ex.w.CS.Externs[cn]; ok {
						fc = pc
						full = "parameter " + pn + " as " + cn
					}
				}
			}
		}
	}
	freshResults := func() []Term {
		out := make([]Term, rs.Len())
		for i := 0; i < rs.Len(); i++ {
			out[i] = w.Fresh("r!"+shortName(full), w.SortOf(rs.At(i).Type()))
			ex.assumeTyped(st, out[i], rs.At(i).Type())
		}
		return out
	}
	names, tys := ex.paramNamesTypes(fc, c)
	clockBefore := st.heap.clock
	st.heap.clock++ // room for objects the callee allocates
	if fc == nil {
		if r, ok := ex.protoGetter(st, c, args); ok {
			return []Term{r}
		}
		pol := ex.policyFor(c)
		switch pol {
		case "pure":
			return ex.pureResults(st, full, args, tys, rs)
		case "noeffect":
			ex.usedPolicy(full, pol)
			return freshResults()
		default:
			if sc := c.StaticCallee(); sc != nil && sc.Signature.Recv() != nil && len(args) > 0 && w.CS.Opaque != nil {
				rt := strings.TrimPrefix(types.TypeString(sc.Signature.Recv().Type(), nil), "*")
				if w.CS.Opaque[rt] {
					// a method of an opaque type: it may use its receiver, so the receiver must not be nil
					ex.safety(st, "nil-receiver", pos, Not(Eq(args[0], TNil)))
					ex.usedPolicy(full, "opaque")
					w.heapHavocAll(st.heap)
					ex.reassumeStable(st)
					return freshResults()
				}
			}
			ex.uncontracted[full]++
			w.heapHavocAll(st.heap)
			ex.reassumeStable(st)
			st.trace = append(st.trace, fmt.Sprintf("%s: uncontracted call %s (heap havoced)", w.posStr(pos), full))
			return freshResults()
		}
	}
	ex.usedContracts[fc.Kind+" "+fc.Name] = true
	if fc.Pure && len(fc.Ensures) == 0 && len(fc.Requires) == 0 {
		return ex.pureResults(st, full, args, tys, rs)
	}
	// environment
	env := &CEnv{ex: ex, st: st, vars: map[string]CV{}, pkg: ex.pkgOf(fc, callee), freshAfter: clockBefore}
	for i, a := range args {
		if i < len(names) && names[i] != "" && names[i] != "_" {
			var gt types.Type
			if i < len(tys) {
				gt = tys[i]
			}
			env.vars[names[i]] = CV{T: a, GoT: gt}
		}
		env.vars[fmt.Sprintf("arg%d", i)] = CV{T: a}
	}
	if !fnv.IsZero() {
		// a call through a function value: the contract of its function type may speak about the value itself
		env.vars["fnvalue"] = CV{T: fnv}
	}
	if callee != nil && fc.Kind != "extern" {
		// the callee's contract may name parameters by the names they had when it was written
		if snap, ok := w.sigs[callee.String()]; ok && len(snap.Params) == len(callee.Params) {
			for i, old := range snap.Params {
				if _, have := env.vars[old]; !have && i < len(args) && i < len(names) {
					env.vars[old] = env.vars[names[i]]
				}
			}
		}
	}
	// explicit, listed assumptions of the caller at this call site (`at <callee> assumes ...`)
	if extra := ex.fc.CallAsserts[fc.Name]; len(extra) > 0 && len(st.frames) == 1 {
		cenv := env.child()
		for k, v := range ex.params {
			if _, shadow := cenv.vars[k]; !shadow {
				cenv.vars[k] = v
			}
			cenv.vars["caller_"+k] = v
		}
		cenv.old = ex.entry
		for _, r := range extra {
			if r.Kind != "assumes" {
				continue
			}
			cv, err := cenv.Eval(r.Expr)
			if err != nil {
				ex.aborted = fmt.Sprintf("%s:%d: at %s assumes: %v", r.File, r.Line, fc.Name, err)
				return freshResults()
			}
			ex.w.Note(fmt.Sprintf("ASSUMED at call of %s in %s: %s", fc.Name, ex.fn.Name(), r.Src))
			st.assume(cv.T)
		}
	}
	for i, r := range fc.Requires {
		cv, err := env.Eval(r.Expr)
		if err != nil {
			ex.aborted = fmt.Sprintf("%s:%d: requires of %s: %v", r.File, r.Line, fc.Name, err)
			return freshResults()
		}
		lbl := r.Label
		if lbl == "" {
			lbl = fmt.Sprintf("%s.call.%s.requires%d", ex.fn.Name(), shortName(fc.Name), i)
		} else {
			lbl = ex.fn.Name() + ".call." + lbl
		}
		ex.addOb(st, "pre", lbl, r.Src, pos, cv.T)
		st.assumeBranch(cv.T)
	}
	if extra := ex.fc.CallAsserts[fc.Name]; len(extra) > 0 && len(st.frames) == 1 {
		cenv := env.child()
		for k, v := range ex.params {
			if _, shadow := cenv.vars[k]; !shadow {
				cenv.vars[k] = v
			}
			cenv.vars["caller_"+k] = v
		}
		cenv.old = ex.entry
		for i, r := range extra {
			if r.Kind != "requires" {
				continue
			}
			cv, err := cenv.Eval(r.Expr)
			if err != nil {
				ex.aborted = fmt.Sprintf("%s:%d: at %s requires: %v", r.File, r.Line, fc.Name, err)
				return freshResults()
			}
			lbl := r.Label
			if lbl == "" {
				lbl = fmt.Sprintf("%s.at.%s.requires%d", ex.fn.Name(), shortName(fc.Name), i)
			}
			ex.addOb(st, "pre", lbl, r.Src, pos, cv.T)
			st.assumeBranch(cv.T)
		}
	}
	old := st.heap.clone()
	env.old = old
	if fc.HavocAll {
		w.heapHavocAll(st.heap)
		ex.reassumeStable(st)
	}
	ex.implLockgen = fc.Kind != "extern"
	ex.curCall, ex.curNames = c, names
	defer func() { ex.curCall, ex.curNames = nil, nil }()
	for _, m := range fc.Modifies {
		for _, e := range m.Exprs {
			if err := ex.havocLoc(st, env, old, e); err != nil {
				ex.aborted = fmt.Sprintf("%s:%d: modifies of %s: %v", m.File, m.Line, fc.Name, err)
				return freshResults()
			}
		}
	}
	var res []Term
	if fc.Pure {
		res = ex.pureResults(st, full, args, tys, rs)
	} else {
		res = freshResults()
	}
	bindResults(env, sig, fc.Results, res)
	for _, en := range fc.Ensures {
		cv, err := env.Eval(en.Expr)
		if err != nil {
			ex.aborted = fmt.Sprintf("%s:%d: ensures of %s: %v", en.File, en.Line, fc.Name, err)
			return res
		}
		st.assume(cv.T)
	}
	return res
}

func (ex *Exec) pkgOf(fc *FuncContract, callee *ssa.Function) *ssa.Package {
	if fc != nil && fc.Kind == "extern" && fc.PkgPath != "" {
		// an extern written in a package's contract file speaks that package's vocabulary
		if sp, ok := ex.w.SSAPkgs[fc.PkgPath]; ok {
			return sp
		}
	}
	if callee != nil && callee.Pkg != nil {
		return callee.Pkg
	}
	if fc != nil && fc.PkgPath != "" {
		if sp, ok := ex.w.SSAPkgs[fc.PkgPath]; ok {
			return sp
		}
	}
	return ex.fn.Pkg
}

func shortName(full string) string {
	if i := strings.LastIndex(full, "/"); i >= 0 {
		full = full[i+1:]
	}
	r := strings.NewReplacer("(", "", ")", "", "*", "", " ", "")
	return r.Replace(full)
}

func (ex *Exec) usedPolicy(full, pol string) {
	ex.w.Note("policy " + pol + ": " + full)
}

// pureResults models a deterministic, effect-free call: results are
// uninterpreted functions of the arguments ([]byte arguments by content).
func (ex *Exec) pureResults(st *State, full string, args []Term, tys []types.Type, rs *types.Tuple) []Term {
	w := ex.w
	ex.usedPolicy(full, "pure")
	ats := make([]Term, len(args))
	sorts := make([]Sort, len(args))
	for i, a := range args {
		ats[i] = a
		if a.Sort == SSlice && i < len(tys) && tys[i] != nil && isByteSlice(tys[i]) {
			ats[i] = ex.byteContent(st.heap, a)
		}
		sorts[i] = ats[i].Sort
	}
	out := make([]Term, rs.Len())
	for i := 0; i < rs.Len(); i++ {
		rt := rs.At(i).Type()
		s := w.SortOf(rt)
		if isByteSlice(rt) {
			fn := w.D.Fun(fmt.Sprintf("F!%s!%d", full, i), sorts, SBytes)
			content := App(SBytes, fn, ats...)
			r := ex.allocRef(st, "pure")
			bm := w.heapGet(st.heap, "BM", ArraySort(SRef, SBytes))
			w.heapSet(st.heap, "BM", Store(bm, r, content))
			out[i] = MkSlice(r, IntLit(0), BLen(content), BLen(content))
			continue
		}
		fn := w.D.Fun(fmt.Sprintf("F!%s!%d", full, i), sorts, s)
		out[i] = App(s, fn, ats...)
		ex.assumeTyped(st, out[i], rt)
	}
	return out
}

// havocLoc makes the location denoted by a modifies expression arbitrary.
func (ex *Exec) havocLoc(st *State, env *CEnv, old *Heap, e CExpr) error {
	w := ex.w
	oenv := *env
	oenv.cur = old
	switch n := e.(type) {
	case *CCall:
		switch n.Fn {
		case "bytes":
			v, err := oenv.Eval(n.Args[0])
			if err != nil {
				return err
			}
			bm := w.heapGet(st.heap, "BM", ArraySort(SRef, SBytes))
			if v.T.Sort == SSlice {
				oldB := Select(bm, SBase(v.T))
				c := w.Fresh("bytes!havoc", SBytes)
				off, ln := SOff(v.T), SLen(v.T)
				st.assume(Eq(BLen(c), ln))
				nb := App(SBytes, "bupd", oldB, off, c)
				ex.recLoc(frameLoc{Array: "BM", Key: SBase(v.T), Range: true, Off: off, Len: ln})
				w.heapSet(st.heap, "BM", Store(bm, SBase(v.T), nb))
				return nil
			}
			if v.T.Sort == SRef {
				key := ex.bmKey(v.T)
				nb := w.Fresh("bytes!havoc", SBytes)
				st.assume(Eq(BLen(nb), BLen(Select(bm, key))))
				ex.recLoc(frameLoc{Array: "BM", Key: key})
				w.heapSet(st.heap, "BM", Store(bm, key, nb))
				return nil
			}
			return cerr("modifies bytes(%s): not a slice or array pointer", v.T.S)
		case "elems": // elems(s): the elements s[0..len(s)) of a non-byte slice
			v, err := oenv.Eval(n.Args[0])
			if err != nil {
				return err
			}
			if v.T.Sort != SSlice || v.GoT == nil {
				return cerr("modifies elems(): not a typed slice")
			}
			elem := v.GoT.Underlying().(*types.Slice).Elem()
			an, as := w.ElemArray(elem)
			arr := w.heapGet(st.heap, an, as)
			_, inner, _ := as.IsArray()
			na := w.Fresh("elems!havoc", inner)
			oldA := Select(arr, SBase(v.T))
			// frame: indices outside [off, off+len) keep their values
			st.assume(Term{fmt.Sprintf("(forall ((i!q Int)) (! (=> (or (< i!q %s) (>= i!q (+ %s %s))) (= (select %s i!q) (select %s i!q))) :pattern ((select %s i!q))))",
				SOff(v.T).S, SOff(v.T).S, SLen(v.T).S, na.S, oldA.S, na.S), SBool})
			ex.recLoc(frameLoc{Array: an, Key: SBase(v.T), Range: true, Off: SOff(v.T), Len: SLen(v.T)})
			w.heapSet(st.heap, an, Store(arr, SBase(v.T), na))
			return nil
		case "lockstate":
			v, err := oenv.Eval(n.Args[0])
			if err != nil {
				return err
			}
			ls := w.heapGet(st.heap, "LockState", ArraySort(SRef, SInt))
			ex.recLoc(frameLoc{Array: "LockState", Key: v.T})
			w.heapSet(st.heap, "LockState", Store(ls, v.T, w.Fresh("lockstate", SInt)))
			// a function that may lock m may also open a new critical section of m
			if g, ok := w.CS.Ghosts["lockgen"]; ok && len(g.Params) == 1 && ex.implLockgen {
				as := ArraySort(g.Params[0], g.Result)
				ex.recLoc(frameLoc{Array: "G_lockgen", Key: v.T})
				w.heapSet(st.heap, "G_lockgen", Store(w.heapGet(st.heap, "G_lockgen", as), v.T, w.Fresh("ghost!lockgen", g.Result)))
			}
			return nil
		case "every": // every("pkg/path.Type.field") / every(ghost): that field of every object / the ghost at every key
			an, as, ok := ex.everyArray(n)
			if !ok {
				return cerr("every(): unknown field or ghost")
			}
			ex.recLoc(frameLoc{Array: an, Whole: true})
			arr := w.heapGet(st.heap, an, as)
			na := w.Fresh("every!havoc", as)
			if k, _, isArr := as.IsArray(); isArr && k == SRef {
				// objects allocated later than the call cannot have been touched
				_ = arr
			}
			w.heapSet(st.heap, an, na)
			return nil
		case "allfields": // allfields(p): every field of the struct the argument p points to (its static type at the call site)
			id, ok := n.Args[0].(*CIdent)
			if !ok || ex.curCall == nil {
				return cerr("allfields(param) is only available in the modifies clause of a called contract")
			}
			var sv ssa.Value
			for i, nm := range ex.curNames {
				if nm != id.Name {
					continue
				}
				if ex.curCall.IsInvoke() {
					if i == 0 {
						sv = ex.curCall.Value
					} else if i-1 < len(ex.curCall.Args) {
						sv = ex.curCall.Args[i-1]
					}
				} else if i < len(ex.curCall.Args) {
					sv = ex.curCall.Args[i]
				}
			}
			if sv == nil {
				return cerr("allfields(%s): no such parameter", id.Name)
			}
			if mi, ok := sv.(*ssa.MakeInterface); ok {
				sv = mi.X
			}
			if _, isIface := sv.Type().Underlying().(*types.Interface); isIface {
				// the message is opaque at this call site (passed on as an interface): this caller reads none of its fields
				w.Note("allfields(" + id.Name + "): dynamic type unknown at a call in " + ex.fn.Name() + ", no concrete field havoced")
				return nil
			}
			pt, ok := sv.Type().Underlying().(*types.Pointer)
			if !ok {
				return cerr("allfields(%s): argument of type %s is not a pointer to a struct", id.Name, sv.Type())
			}
			stt, ok := asStruct(pt.Elem())
			if !ok {
				return cerr("allfields(%s): argument of type %s is not a pointer to a struct", id.Name, sv.Type())
			}
			v, err := oenv.Eval(n.Args[0])
			if err != nil {
				return err
			}
			for i := 0; i < stt.NumFields(); i++ {
				ft := stt.Field(i).Type()
				nv := ex.freshOfType(st, "mod!"+stt.Field(i).Name(), ft)
				ex.store(st, ex.fieldAddr(v.T, pt.Elem(), i), nv, ft)
			}
			return nil
		case "sends": // sends(ch): the number of values sent on ch
			v, err := oenv.Eval(n.Args[0])
			if err != nil {
				return err
			}
			cs := w.heapGet(st.heap, "ChanSends", ArraySort(SRef, SInt))
			ex.recLoc(frameLoc{Array: "ChanSends", Key: v.T})
			nv := w.Fresh("sends", SInt)
			st.assume(Ge(nv, Select(cs, v.T)))
			w.heapSet(st.heap, "ChanSends", Store(cs, v.T, nv))
			return nil
		case "deref":
			v, err := oenv.Eval(n.Args[0])
			if err != nil {
				return err
			}
			if v.GoT == nil {
				return cerr("modifies deref(): untyped")
			}
			et := deref(v.GoT)
			nv := ex.freshOfType(st, "deref!havoc", et)
			ex.store(st, v.T, nv, et)
			return nil
		case "mapof": // mapof(m): the whole content of map m
			v, err := oenv.Eval(n.Args[0])
			if err != nil {
				return err
			}
			if v.GoT == nil {
				return cerr("modifies mapof(): untyped")
			}
			mt, ok := v.GoT.Underlying().(*types.Map)
			if !ok {
				return cerr("modifies mapof(): not a map")
			}
			pn, ps, vn, vs := w.MapArrays(mt)
			_, pin, _ := ps.IsArray()
			_, vin, _ := vs.IsArray()
			ex.recLoc(frameLoc{Array: pn, Key: v.T})
			ex.recLoc(frameLoc{Array: vn, Key: v.T})
			w.heapSet(st.heap, pn, Store(w.heapGet(st.heap, pn, ps), v.T, w.Fresh("map!havoc", pin)))
			w.heapSet(st.heap, vn, Store(w.heapGet(st.heap, vn, vs), v.T, w.Fresh("map!havoc", vin)))
			return nil
		}
		if g, ok := w.CS.Ghosts[n.Fn]; ok {
			if len(g.Params) == 1 {
				v, err := oenv.Eval(n.Args[0])
				if err != nil {
					return err
				}
				as := ArraySort(g.Params[0], g.Result)
				arr := w.heapGet(st.heap, "G_"+n.Fn, as)
				if n.Fn == "cancelled" && g.Result == SBool && g.Params[0] == SRef {
					// cancellation is environment state: a callee that may observe (or wait for) the
					// cancellation of one context lets time pass, during which any context may be
					// cancelled, and none is ever un-cancelled
					nc := w.Fresh("cancelled!call", as)
					st.assume(Term{fmt.Sprintf("(forall ((r!q Ref)) (! (=> (select %s r!q) (select %s r!q)) :pattern ((select %s r!q))))", arr.S, nc.S, nc.S), SBool})
					ex.recLoc(frameLoc{Array: "G_cancelled", Whole: true})
					w.heapSet(st.heap, "G_cancelled", nc)
					return nil
				}
				ex.recLoc(frameLoc{Array: "G_" + n.Fn, Key: oenv.coerceTo(v, g.Params[0])})
				w.heapSet(st.heap, "G_"+n.Fn, Store(arr, oenv.coerceTo(v, g.Params[0]), w.Fresh("ghost!"+n.Fn, g.Result)))
				return nil
			}
		}
		return cerr("unsupported modifies target %s(...)", n.Fn)
	case *CIdent:
		if g, ok := w.CS.Ghosts[n.Name]; ok && len(g.Params) == 0 {
			ex.recLoc(frameLoc{Array: "G_" + n.Name, Whole: true})
			w.heapSet(st.heap, "G_"+n.Name, w.Fresh("ghost!"+n.Name, g.Result))
			return nil
		}
		return cerr("unsupported modifies target %s", n.Name)
	case *CSel:
		v, err := oenv.Eval(n.X)
		if err != nil {
			return err
		}
		if v.GoT == nil {
			return cerr("modifies %s: untyped base", n.Field)
		}
		t := deref(v.GoT)
		s, ok := asStruct(t)
		if !ok {
			return cerr("modifies .%s: not a struct", n.Field)
		}
		for i := 0; i < s.NumFields(); i++ {
			if s.Field(i).Name() == n.Field {
				ft := s.Field(i).Type()
				addr := ex.fieldAddr(v.T, t, i)
				nv := ex.freshOfType(st, "mod!"+n.Field, ft)
				ex.store(st, addr, nv, ft)
				return nil
			}
		}
		return cerr("modifies: no field %s", n.Field)
	}
	return cerr("unsupported modifies expression")
}

func (ex *Exec) freshOfType(st *State, hint string, t types.Type) Term {
	w := ex.w
	if stt, ok := asStruct(t); ok {
		fs := make([]Term, stt.NumFields())
		for i := range fs {
			fs[i] = ex.freshOfType(st, hint, stt.Field(i).Type())
		}
		return w.StructMk(t, fs)
	}
	v := w.Fresh(hint, w.SortOf(t))
	ex.assumeTyped(st, v, t)
	return v
}

func (ex *Exec) runDefers(st *State, fr *Frame) ([]*State, bool) {
	if len(fr.defers) == 0 {
		return nil, false
	}
	d := fr.defers[len(fr.defers)-1]
	fr.defers = fr.defers[:len(fr.defers)-1]
	return ex.doCall(st, fr, d.call, nil, &d)
}

// ---------- builtins ----------

func (ex *Exec) builtin(st *State, fr *Frame, b *ssa.Builtin, c *ssa.CallCommon, args []Term, instr ssa.Value) ([]*State, bool) {
	w := ex.w
	set := func(t Term) {
		if instr != nil {
			fr.regs[instr] = t
		}
	}
	pos := token.NoPos
	if instr != nil {
		pos = instr.Pos()
	}
	switch b.Name() {
	case "len":
		switch t := c.Args[0].Type().Underlying().(type) {
		case *types.Slice:
			set(SLen(args[0]))
		case *types.Basic:
			set(BLen(args[0]))
		case *types.Map:
			pn, ps, _, _ := w.MapArrays(t)
			l := ex.mapLen(Select(w.heapGet(st.heap, pn, ps), args[0]))
			st.assume(Ge(l, IntLit(0)))
			st.assume(Implies(Eq(args[0], TNil), Eq(l, IntLit(0))))
			set(l)
		case *types.Array:
			set(IntLit(t.Len()))
		case *types.Pointer:
			set(IntLit(t.Elem().Underlying().(*types.Array).Len()))
		default:
			v := w.Fresh("len", SInt)
			st.assume(Ge(v, IntLit(0)))
			set(v)
		}
	case "cap":
		switch t := c.Args[0].Type().Underlying().(type) {
		case *types.Slice:
			set(SCap(args[0]))
		case *types.Array:
			set(IntLit(t.Len()))
		case *types.Pointer:
			set(IntLit(t.Elem().Underlying().(*types.Array).Len()))
		default:
			v := ex.chanCap(st, args[0])
			set(v)
		}
	case "append":
		set(ex.appendSlices(st, args[0], args[1], c.Args[0].Type(), c.Args[1].Type()))
	case "copy":
		set(ex.copySlices(st, args[0], args[1], c.Args[0].Type(), c.Args[1].Type()))
	case "delete":
		mt := c.Args[0].Type().Underlying().(*types.Map)
		pn, ps, _, _ := w.MapArrays(mt)
		pa := w.heapGet(st.heap, pn, ps)
		w.heapSet(st.heap, pn, Store(pa, args[0], Store(Select(pa, args[0]), args[1], TFalse)))
	case "panic":
		ex.panicReached(st, pos, "explicit panic")
		return ex.unwindPanic(st)
	case "print", "println":
	case "recover":
		w.Note("recover: returns nil in the model")
		set(TNil)
	case "min", "max":
		r := args[0]
		for _, a := range args[1:] {
			if b.Name() == "min" {
				r = Ite(Lt(a, r), a, r)
			} else {
				r = Ite(Gt(a, r), a, r)
			}
		}
		set(r)
	case "close":
		ex.closeHook(st, args[0], pos)
	case "clear":
		w.Note("clear: havoc")
		w.heapHavocAll(st.heap)
	default:
		w.Note("builtin " + b.Name() + " havoced")
		if instr != nil {
			set(w.Fresh("builtin!"+b.Name(), w.SortOf(instr.Type())))
		}
	}
	return nil, false
}

func (ex *Exec) chanCap(st *State, ch Term) Term {
	return Select(ex.w.heapGet(st.heap, "ChanCap", ArraySort(SRef, SInt)), ch)
}

func (ex *Exec) appendSlices(st *State, s, t Term, sT, tT types.Type) Term {
	w := ex.w
	elem := sT.Underlying().(*types.Slice).Elem()
	r := ex.allocRef(st, "append")
	if isByte(elem) {
		var tc Term
		if t.Sort == SBytes { // append([]byte, string...)
			tc = t
		} else {
			tc = ex.byteContent(st.heap, t)
		}
		content := BCat(ex.byteContent(st.heap, s), tc)
		// simplify append(nil, x...) and append(x, nil...)
		if s.S == NilSlice.S {
			content = tc
		}
		capv := w.Fresh("append!cap", SInt)
		st.assume(Ge(capv, BLen(content)))
		bm := w.heapGet(st.heap, "BM", ArraySort(SRef, SBytes))
		pad := w.Fresh("append!pad", SBytes)
		st.assume(Eq(BLen(pad), Sub(capv, BLen(content))))
		w.heapSet(st.heap, "BM", Store(bm, r, BCat(content, pad)))
		w.Note("append: result never aliases its first argument (spare capacity not modelled)")
		return MkSlice(r, IntLit(0), BLen(content), capv)
	}
	if stt, isStruct := asStruct(elem); isStruct {
		ln := Add(SLen(s), SLen(t))
		flat := true
		for i := 0; i < stt.NumFields(); i++ {
			if _, nested := asStruct(stt.Field(i).Type()); nested || isByteArray(stt.Field(i).Type()) {
				flat = false
			}
		}
		if !flat {
			w.Note("append on slice of nested structs: content havoced")
			return MkSlice(r, IntLit(0), ln, ln)
		}
		// elements of a struct slice live in the field arrays at elemref(base, index):
		// the new backing store r holds copies of s's elements followed by t's
		w.D.Fun("elemref", []Sort{SRef, SInt}, SRef)
		for i := 0; i < stt.NumFields(); i++ {
			an, as := w.FieldArray(elem, i)
			old := w.heapGet(st.heap, an, as)
			na := w.Fresh(an+"!append", as)
			st.assume(Term{fmt.Sprintf("(forall ((x!q Ref)) (! (=> (not (and (= (addrtag x!q) (- 1)) (= (addrbase x!q) %s))) (= (select %s x!q) (select %s x!q))) :pattern ((select %s x!q))))", r.S, na.S, old.S, na.S), SBool})
			st.assume(Term{fmt.Sprintf("(forall ((i!q Int)) (! (=> (and (<= 0 i!q) (< i!q %s)) (= (select %s (elemref %s i!q)) (select %s (elemref %s (eidx %s i!q))))) :pattern ((select %s (elemref %s i!q)))))",
				SLen(s).S, na.S, r.S, old.S, SBase(s).S, SOff(s).S, na.S, r.S), SBool})
			st.assume(Term{fmt.Sprintf("(forall ((i!q Int)) (! (=> (and (<= 0 i!q) (< i!q %s)) (= (select %s (elemref %s (+ %s i!q))) (select %s (elemref %s (eidx %s i!q))))) :pattern ((select %s (elemref %s (eidx %s i!q))))))",
				SLen(t).S, na.S, r.S, SLen(s).S, old.S, SBase(t).S, SOff(t).S, old.S, SBase(t).S, SOff(t).S), SBool})
			// the common case of one appended element, stated directly
			st.assume(Implies(Eq(SLen(t), IntLit(1)), Eq(Select(na, App(SRef, "elemref", r, SLen(s))), Select(old, App(SRef, "elemref", SBase(t), EIdx(SOff(t), IntLit(0)))))))
			w.heapSet(st.heap, an, na)
		}
		capv := w.Fresh("append!cap", SInt)
		st.assume(Ge(capv, ln))
		return MkSlice(r, IntLit(0), ln, capv)
	}
	n, as := w.ElemArray(elem)
	arr := w.heapGet(st.heap, n, as)
	_, inner, _ := as.IsArray()
	na := w.Fresh("append!arr", inner)
	ls, lt := SLen(s), SLen(t)
	i := Term{"i!q", SInt}
	srcS := Select(Select(arr, SBase(s)), EIdx(SOff(s), i))
	st.assume(Term{fmt.Sprintf("(forall ((i!q Int)) (! (=> (and (<= 0 i!q) (< i!q %s)) (= (select %s i!q) %s)) :pattern ((select %s i!q))))",
		ls.S, na.S, srcS.S, na.S), SBool})
	if lt.S != "0" {
		srcT := Select(Select(arr, SBase(t)), EIdx(SOff(t), i))
		st.assume(Term{fmt.Sprintf("(forall ((i!q Int)) (! (=> (and (<= 0 i!q) (< i!q %s)) (= (select %s (eidx %s i!q)) %s)) :pattern (%s)))",
			lt.S, na.S, ls.S, srcT.S, srcT.S), SBool})
		// common case: a single appended element
		st.assume(Implies(Eq(lt, IntLit(1)), Eq(Select(na, ls), Select(Select(arr, SBase(t)), EIdx(SOff(t), IntLit(0))))))
	}
	w.heapSet(st.heap, n, Store(arr, r, na))
	ln := Add(ls, lt)
	capv := w.Fresh("append!cap", SInt)
	st.assume(Ge(capv, ln))
	return MkSlice(r, IntLit(0), ln, capv)
}

func (ex *Exec) copySlices(st *State, dst, src Term, dT, sT types.Type) Term {
	w := ex.w
	elem := dT.Underlying().(*types.Slice).Elem()
	var srcLen Term
	if src.Sort == SBytes {
		srcLen = BLen(src)
	} else {
		srcLen = SLen(src)
	}
	n := Ite(Lt(SLen(dst), srcLen), SLen(dst), srcLen)
	if isByte(elem) {
		var sc Term
		if src.Sort == SBytes {
			sc = src
		} else {
			sc = ex.byteContent(st.heap, src)
		}
		bm := w.heapGet(st.heap, "BM", ArraySort(SRef, SBytes))
		nb := App(SBytes, "bupd", Select(bm, SBase(dst)), SOff(dst), BSlice(sc, IntLit(0), n))
		w.heapSet(st.heap, "BM", Store(bm, SBase(dst), nb))
		return n
	}
	w.Note("copy on non-byte slices: destination havoced")
	an, as := w.ElemArray(elem)
	arr := w.heapGet(st.heap, an, as)
	_, inner, _ := as.IsArray()
	w.heapSet(st.heap, an, Store(arr, SBase(dst), w.Fresh("copy!arr", inner)))
	return n
}

// ---------- hooks filled in by discipline checks (locks.go) ----------

// makeSliceHook: `option alloc_limit = <expr>` bounds every allocation the
// function makes (evaluated in the state at the allocation).
func (ex *Exec) makeSliceHook(st *State, x *ssa.MakeSlice, ln, cp Term) {
	src, ok := ex.fc.Options["alloc_limit"]
	if !ok || len(st.frames) != 1 {
		return
	}
	e, err := ParseCExpr(src)
	if err != nil {
		ex.aborted = "alloc_limit: " + err.Error()
		return
	}
	env := ex.contractEnv(st, ex.entry)
	cv, err := env.Eval(e)
	if err != nil {
		ex.aborted = "alloc_limit: " + err.Error()
		return
	}
	ex.addOb(st, "safety", ex.fn.Name()+".alloc-limit", "allocation size <= "+src, x.Pos(), Le(cp, cv.T))
}
func (ex *Exec) goHook(st *State, fr *Frame, x *ssa.Go)               {}
func (ex *Exec) closeHook(st *State, ch Term, pos token.Pos)            {}

func (ex *Exec) funcTypeContract(c *ssa.CallCommon) (*FuncContract, bool) {
	// named function type with an extern contract "functype <pkgpath>.<Name>"
	t := c.Value.Type()
	if n, ok := t.(*types.Named); ok && n.Obj().Pkg() != nil {
		if fc, ok := ex.w.CS.Externs["functype "+n.Obj().Pkg().Path()+"."+n.Obj().Name()]; ok {
			return fc, true
		}
	}
	return nil, false
}

// protoGetter: generated protobuf getters `func (x *T) GetF() FT { if x != nil { return x.F }; return zero }`
// of packages that are not loaded from source are modelled by that definition
// (assumption about generated code, reported in the notes).
func (ex *Exec) protoGetter(st *State, c *ssa.CallCommon, args []Term) (Term, bool) {
	if c.IsInvoke() {
		return Term{}, false
	}
	fn := c.StaticCallee()
	if fn == nil || !strings.HasPrefix(fn.Name(), "Get") || len(args) != 1 {
		return Term{}, false
	}
	if len(fn.Blocks) > 0 {
		// a getter of the package under analysis: only the generated ones (*.pb.go)
		if !fn.Pos().IsValid() || !strings.HasSuffix(ex.w.Prog.Fset.Position(fn.Pos()).Filename, ".pb.go") {
			return Term{}, false
		}
	}
	sig := fn.Signature
	if sig.Recv() == nil || sig.Params().Len() != 0 || sig.Results().Len() != 1 {
		return Term{}, false
	}
	pt, ok := sig.Recv().Type().Underlying().(*types.Pointer)
	if !ok {
		return Term{}, false
	}
	stt, ok := asStruct(pt.Elem())
	if !ok {
		return Term{}, false
	}
	// generated messages carry the protoimpl state fields
	isProto := false
	for i := 0; i < stt.NumFields(); i++ {
		if stt.Field(i).Name() == "sizeCache" || stt.Field(i).Name() == "unknownFields" {
			isProto = true
		}
	}
	if !isProto {
		return Term{}, false
	}
	fname := strings.TrimPrefix(fn.Name(), "Get")
	for i := 0; i < stt.NumFields(); i++ {
		f := stt.Field(i)
		if f.Name() != fname || !types.Identical(f.Type(), sig.Results().At(0).Type()) {
			continue
		}
		ex.w.Note("generated protobuf getter modelled by its definition: " + fn.String())
		addr := ex.fieldAddr(args[0], pt.Elem(), i)
		v := ex.load(st, st.heap, addr, f.Type())
		ex.assumeTyped(st, v, f.Type())
		return Ite(Eq(args[0], TNil), ex.w.Zero(f.Type()), v), true
	}
	return Term{}, false
}

// reassumeStable: after a call that havocs the whole heap, the representation
// invariants the function declared `stable` are assumed to hold again (every
// callee is assumed to preserve them; listed in the evidence as an assumption).
func (ex *Exec) reassumeStable(st *State) {
	if len(ex.fc.Stable) == 0 || len(st.frames) != 1 {
		return
	}
	env := ex.contractEnv(st, ex.entry)
	for _, c := range ex.fc.Stable {
		cv, err := env.Eval(c.Expr)
		if err != nil {
			ex.aborted = fmt.Sprintf("%s:%d: stable: %v", c.File, c.Line, err)
			return
		}
		st.assume(cv.T)
		ex.w.Note("ASSUMED stable across calls in " + ex.fn.Name() + ": " + c.Src)
	}
}
