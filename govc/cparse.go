package main

import (
	"fmt"
	"os"
	"strings"
	"unicode"
)

// ---------- contract expression AST ----------

type CExpr interface{}

type (
	CIdent struct{ Name string }
	CInt   struct{ Val string }
	CStr   struct{ Val string }
	CBool  struct{ Val bool }
	CNil   struct{}
	CUnary struct {
		Op string
		X  CExpr
	}
	CBinary struct {
		Op   string
		X, Y CExpr
	}
	CCall struct {
		Fn   string
		Args []CExpr
	}
	CSel struct {
		X     CExpr
		Field string
	}
	CIndex struct{ X, I CExpr }
	CSlice struct{ X, Lo, Hi CExpr }
	CVar   struct {
		Name string
		Sort Sort
	}
	CQuant struct {
		Forall bool
		Vars   []CVar
		Pats   []CExpr
		Body   CExpr
	}
)

type tok struct {
	kind string // id, int, str, op, eof
	val  string
}

type clexer struct {
	src  string
	pos  int
	toks []tok
}

var cops = []string{"<==>", "==>", "::", "&&", "||", "==", "!=", "<=", ">=", "<", ">", "+", "-", "*", "/", "%", "!", ".", ",", "(", ")", "[", "]", ":", "{", "}"}

func clex(src string) ([]tok, error) {
	var toks []tok
	i := 0
	for i < len(src) {
		c := rune(src[i])
		if unicode.IsSpace(c) {
			i++
			continue
		}
		if unicode.IsLetter(c) || c == '_' {
			j := i
			for j < len(src) && (unicode.IsLetter(rune(src[j])) || unicode.IsDigit(rune(src[j])) || src[j] == '_' || src[j] == '$') {
				j++
			}
			toks = append(toks, tok{"id", src[i:j]})
			i = j
			continue
		}
		if unicode.IsDigit(c) {
			j := i
			if strings.HasPrefix(src[i:], "0x") {
				j += 2
				for j < len(src) && strings.ContainsRune("0123456789abcdefABCDEF", rune(src[j])) {
					j++
				}
			} else {
				for j < len(src) && unicode.IsDigit(rune(src[j])) {
					j++
				}
			}
			toks = append(toks, tok{"int", src[i:j]})
			i = j
			continue
		}
		if c == '"' {
			j := i + 1
			for j < len(src) && src[j] != '"' {
				if src[j] == '\\' {
					j++
				}
				j++
			}
			if j >= len(src) {
				return nil, fmt.Errorf("unterminated string")
			}
			toks = append(toks, tok{"str", src[i+1 : j]})
			i = j + 1
			continue
		}
		matched := false
		for _, op := range cops {
			if strings.HasPrefix(src[i:], op) {
				toks = append(toks, tok{"op", op})
				i += len(op)
				matched = true
				break
			}
		}
		if !matched {
			return nil, fmt.Errorf("unexpected character %q at %d in %q", c, i, src)
		}
	}
	toks = append(toks, tok{"eof", ""})
	return toks, nil
}

type cparser struct {
	toks []tok
	p    int
}

func (p *cparser) peek() tok { return p.toks[p.p] }
func (p *cparser) next() tok { t := p.toks[p.p]; p.p++; return t }
func (p *cparser) isOp(v string) bool {
	t := p.peek()
	return t.kind == "op" && t.val == v
}
func (p *cparser) accept(v string) bool {
	if p.isOp(v) {
		p.p++
		return true
	}
	return false
}
func (p *cparser) expect(v string) error {
	if !p.accept(v) {
		return fmt.Errorf("expected %q, got %q", v, p.peek().val)
	}
	return nil
}

func ParseCExpr(src string) (CExpr, error) {
	toks, err := clex(src)
	if err != nil {
		return nil, err
	}
	p := &cparser{toks: toks}
	e, err := p.parseExpr(0)
	if err != nil {
		return nil, fmt.Errorf("%v in %q", err, src)
	}
	if p.peek().kind != "eof" {
		return nil, fmt.Errorf("trailing tokens at %q in %q", p.peek().val, src)
	}
	return e, nil
}

var binPrec = map[string]int{
	"<==>": 1, "==>": 2, "||": 3, "&&": 4,
	"==": 5, "!=": 5, "<": 5, "<=": 5, ">": 5, ">=": 5,
	"+": 6, "-": 6, "*": 7, "/": 7, "%": 7,
}

func (p *cparser) parseExpr(minPrec int) (CExpr, error) {
	lhs, err := p.parseUnary()
	if err != nil {
		return nil, err
	}
	for {
		t := p.peek()
		if t.kind != "op" {
			break
		}
		prec, ok := binPrec[t.val]
		if !ok || prec < minPrec {
			break
		}
		p.next()
		nextMin := prec + 1
		if t.val == "==>" {
			nextMin = prec // right assoc
		}
		rhs, err := p.parseExpr(nextMin)
		if err != nil {
			return nil, err
		}
		lhs = &CBinary{t.val, lhs, rhs}
	}
	return lhs, nil
}

func (p *cparser) parseUnary() (CExpr, error) {
	if p.accept("!") {
		x, err := p.parseUnary()
		if err != nil {
			return nil, err
		}
		return &CUnary{"!", x}, nil
	}
	if p.accept("-") {
		x, err := p.parseUnary()
		if err != nil {
			return nil, err
		}
		return &CUnary{"-", x}, nil
	}
	return p.parsePostfix()
}

func (p *cparser) parseSort() (Sort, error) {
	t := p.next()
	if t.kind == "op" && t.val == "(" {
		// (Array K V)
		t2 := p.next()
		if t2.val != "Array" {
			return "", fmt.Errorf("expected Array in sort")
		}
		k, err := p.parseSort()
		if err != nil {
			return "", err
		}
		v, err := p.parseSort()
		if err != nil {
			return "", err
		}
		if err := p.expect(")"); err != nil {
			return "", err
		}
		return ArraySort(k, v), nil
	}
	if t.kind != "id" {
		return "", fmt.Errorf("expected sort, got %q", t.val)
	}
	return Sort(t.val), nil
}

func (p *cparser) parsePostfix() (CExpr, error) {
	var e CExpr
	t := p.next()
	switch t.kind {
	case "int":
		e = &CInt{t.val}
	case "str":
		e = &CStr{t.val}
	case "id":
		switch t.val {
		case "true":
			e = &CBool{true}
		case "false":
			e = &CBool{false}
		case "nil":
			e = &CNil{}
		case "forall", "exists":
			q := &CQuant{Forall: t.val == "forall"}
			for {
				v := p.next()
				if v.kind != "id" {
					return nil, fmt.Errorf("expected bound variable")
				}
				cv := CVar{Name: v.val, Sort: SInt}
				if p.peek().kind == "id" || p.isOp("(") {
					s, err := p.parseSort()
					if err != nil {
						return nil, err
					}
					cv.Sort = s
				}
				q.Vars = append(q.Vars, cv)
				if !p.accept(",") {
					break
				}
			}
			if p.accept("{") {
				for {
					pe, err := p.parseExpr(0)
					if err != nil {
						return nil, err
					}
					q.Pats = append(q.Pats, pe)
					if !p.accept(",") {
						break
					}
				}
				if err := p.expect("}"); err != nil {
					return nil, err
				}
			}
			if err := p.expect("::"); err != nil {
				return nil, err
			}
			body, err := p.parseExpr(0)
			if err != nil {
				return nil, err
			}
			q.Body = body
			return q, nil
		default:
			e = &CIdent{t.val}
		}
	case "op":
		if t.val == "(" {
			x, err := p.parseExpr(0)
			if err != nil {
				return nil, err
			}
			if err := p.expect(")"); err != nil {
				return nil, err
			}
			e = x
		} else {
			return nil, fmt.Errorf("unexpected %q", t.val)
		}
	default:
		return nil, fmt.Errorf("unexpected end of expression")
	}
	for {
		switch {
		case p.accept("."):
			f := p.next()
			if f.kind != "id" {
				return nil, fmt.Errorf("expected field name")
			}
			e = &CSel{e, f.val}
		case p.accept("("):
			var args []CExpr
			if !p.isOp(")") {
				for {
					a, err := p.parseExpr(0)
					if err != nil {
						return nil, err
					}
					args = append(args, a)
					if !p.accept(",") {
						break
					}
				}
			}
			if err := p.expect(")"); err != nil {
				return nil, err
			}
			name := ""
			switch f := e.(type) {
			case *CIdent:
				name = f.Name
			case *CSel:
				if id, ok := f.X.(*CIdent); ok {
					name = id.Name + "." + f.Field
				}
			}
			if name == "" {
				return nil, fmt.Errorf("call of non-identifier")
			}
			e = &CCall{name, args}
		case p.accept("["):
			var lo, hi CExpr
			var err error
			if !p.isOp(":") {
				lo, err = p.parseExpr(0)
				if err != nil {
					return nil, err
				}
			}
			if p.accept(":") {
				if !p.isOp("]") {
					hi, err = p.parseExpr(0)
					if err != nil {
						return nil, err
					}
				}
				if err := p.expect("]"); err != nil {
					return nil, err
				}
				e = &CSlice{e, lo, hi}
			} else {
				if err := p.expect("]"); err != nil {
					return nil, err
				}
				e = &CIndex{e, lo}
			}
		default:
			return e, nil
		}
	}
}

// ---------- contract file structure ----------

type Clause struct {
	Kind  string // requires, ensures, modifies, invariant, decreases, assert
	Label string
	Src   string
	Expr  CExpr
	Exprs []CExpr // modifies list
	Loop  int
	File  string
	Line  int
}

type FuncContract struct {
	Kind      string // func, extern, trusted
	Name      string
	Params    []string // extern: explicit names
	Results   []string
	Props     []string
	Requires  []*Clause
	Stable    []*Clause
	Ensures   []*Clause
	Modifies  []*Clause
	LoopInv   map[int][]*Clause
	LoopDec   map[int]*Clause
	LoopEntry map[int][]*Clause
	Safety    bool
	Pure      bool // result is a function of the arguments (uninterpreted), no effects
	NoEffect  bool // no effect on modelled state
	Inline    bool
	Bound     int // >0: loops unrolled up to Bound (bounded check, never counted as proved)
	File      string
	Line      int
	Guards    []string
	Uses      []string
	ParamContracts map[string]string
	CallAsserts map[string][]*Clause
	// AccessAsserts: "write S.f" / "read S.f" -> obligations at the stores to / loads from that field
	AccessAsserts map[string][]*Clause
	GhostSets []*Clause
	PkgPath   string
	HavocAll  bool
	Cover     bool
	NoReturn  bool
	Options   map[string]string
	FieldInvs []*Clause
}

type SpecFunc struct {
	Name   string
	Params []CVar
	Result Sort
	Def    CExpr
	DefSrc string
	File   string
	Line   int
}

type Ghost struct {
	Name   string
	Params []Sort
	Result Sort
	// Zero: Go type (types.TypeString) -> value of the ghost for a freshly allocated
	// zero value of that type ("zeroghost G \"bytes.Buffer\" bempty")
	Zero map[string]CExpr
}

type Axiom struct {
	Name string
	Src  string
	Expr CExpr
	File string
	Line int
}

type Lemma struct {
	Name  string
	Props []string
	Vars  []CVar
	Src   string
	Expr  CExpr
	Uses  []string // axioms explicitly requested ("*" = all)
	File  string
	Line  int
}

type Guarded struct {
	Struct string
	Field  string
	Mutex  string // field name of the mutex in the same struct
	Read   bool   // rlocked suffices for reads
	Send   bool
	WriteOnly bool
	Props  []string
	PkgPath string
}

type Pred struct {
	Name   string
	Params []string
	Body   CExpr
}

type ContractSet struct {
	Preds   map[string]*Pred
	Funcs   map[string]*FuncContract // key: pkgpath + "::" + name for func/trusted; name for extern
	Externs map[string]*FuncContract
	Specs   map[string]*SpecFunc
	Ghosts  map[string]*Ghost
	Consts  map[string]Sort
	Axioms  []*Axiom
	Lemmas  []*Lemma
	Guarded []*Guarded
	Opaque  map[string]bool // types whose uncontracted methods are "receiver non-nil, havoc"
	SpecOrder []string
	Files   []string
}

func NewContractSet() *ContractSet {
	return &ContractSet{
		Funcs: map[string]*FuncContract{}, Externs: map[string]*FuncContract{},
		Specs: map[string]*SpecFunc{}, Ghosts: map[string]*Ghost{}, Consts: map[string]Sort{}, Preds: map[string]*Pred{},
	}
}

var topKeywords = map[string]bool{"func": true, "extern": true, "trusted": true, "spec": true, "ghost": true, "axiom": true, "lemma": true, "const": true, "guarded": true, "pred": true, "opaque": true, "zeroghost": true}
var clauseKeywords = map[string]bool{"requires": true, "ensures": true, "modifies": true, "loop": true, "safety": true, "pure": true, "noeffect": true, "for": true, "bounded": true, "havocall": true, "noreturn": true, "uses": true, "option": true, "calls": true, "at": true, "ghostset": true, "stable": true}

// ParseContractFile reads the //@ lines of a file. pkgPath is the import path
// of the package the file belongs to ("" for shared spec files).
func (cs *ContractSet) ParseContractFile(path, pkgPath string) error {
	data, err := os.ReadFile(path)
	if err != nil {
		return err
	}
	cs.Files = append(cs.Files, path)
	type rawLine struct {
		text string
		line int
	}
	var lines []rawLine
	var aliases map[string]string
	for i, l := range strings.Split(string(data), "\n") {
		t := strings.TrimSpace(l)
		if !strings.HasPrefix(t, "//@") {
			continue
		}
		t = strings.TrimSpace(t[3:])
		if t == "" || strings.HasPrefix(t, "#") {
			continue
		}
		if strings.HasPrefix(t, "alias ") {
			// alias NAME = text : later occurrences of $NAME in this file are replaced by text
			kv := strings.SplitN(strings.TrimPrefix(t, "alias "), "=", 2)
			if len(kv) == 2 {
				if aliases == nil {
					aliases = map[string]string{}
				}
				aliases["$"+strings.TrimSpace(kv[0])] = strings.TrimSpace(kv[1])
			}
			continue
		}
		for k, v := range aliases {
			t = strings.ReplaceAll(t, k, v)
		}
		first := t
		if j := strings.IndexAny(t, " \t("); j >= 0 {
			first = t[:j]
		}
		if (topKeywords[first] || clauseKeywords[first]) || len(lines) == 0 {
			lines = append(lines, rawLine{t, i + 1})
		} else {
			lines[len(lines)-1].text += " " + t
		}
	}
	var cur *FuncContract
	var curLemma *Lemma
	for _, rl := range lines {
		t := rl.text
		first := t
		rest := ""
		if j := strings.IndexAny(t, " \t"); j >= 0 {
			first = t[:j]
			rest = strings.TrimSpace(t[j+1:])
		}
		fail := func(e error) error { return fmt.Errorf("%s:%d: %v", path, rl.line, e) }
		switch first {
		case "func", "extern", "trusted":
			curLemma = nil
			kind := first
			if first == "trusted" {
				rest = strings.TrimSpace(strings.TrimPrefix(rest, "func"))
			}
			fc := &FuncContract{Kind: kind, LoopInv: map[int][]*Clause{}, LoopDec: map[int]*Clause{}, File: path, Line: rl.line, PkgPath: pkgPath, Options: map[string]string{}}
			// NAME or NAME(p1, p2) (r1, r2)
			name := rest
			if kind == "extern" {
				// find the param list: last top-level "(...)" groups after the name
				name, fc.Params, fc.Results = splitExternHeader(rest)
			}
			fc.Name = name
			if kind == "extern" {
				if prev, dup := cs.Externs[name]; dup {
					// a later block for the same extern adds clauses to the earlier one
					// (a package refines a shared assumed contract with its own vocabulary)
					if len(fc.Params) > 0 && len(prev.Params) > 0 && strings.Join(fc.Params, ",") != strings.Join(prev.Params, ",") {
						return fail(fmt.Errorf("extern %s: parameter names differ from the earlier block", name))
					}
					if prev.PkgPath == "" {
						prev.PkgPath = pkgPath
					}
					fc = prev
				} else {
					cs.Externs[name] = fc
				}
			} else {
				key := pkgPath + "::" + name
				if _, dup := cs.Funcs[key]; dup {
					return fail(fmt.Errorf("duplicate func %s", key))
				}
				cs.Funcs[key] = fc
			}
			cur = fc
		case "for":
			ps := splitList(rest)
			if curLemma != nil {
				curLemma.Props = append(curLemma.Props, ps...)
			} else if cur != nil {
				cur.Props = append(cur.Props, ps...)
			}
		case "uses":
			if curLemma != nil {
				curLemma.Uses = append(curLemma.Uses, splitList(rest)...)
			} else if cur != nil {
				cur.Uses = append(cur.Uses, splitList(rest)...)
			}
		case "ghostset":
			// ghostset G(x) := expr  -- ghost assignment performed at every normal return of the function
			k := strings.Index(rest, ":=")
			if cur == nil || k < 0 {
				return fail(fmt.Errorf("ghostset G(x) := expr"))
			}
			lhs, err := ParseCExpr(strings.TrimSpace(rest[:k]))
			if err != nil {
				return fail(err)
			}
			rhs, err := ParseCExpr(strings.TrimSpace(rest[k+2:]))
			if err != nil {
				return fail(err)
			}
			cur.GhostSets = append(cur.GhostSets, &Clause{Kind: "ghostset", Src: rest, Expr: rhs, Exprs: []CExpr{lhs}, File: path, Line: rl.line})
		case "at":
			// at <callee> requires [label] expr : extra obligation at every call of <callee> in this function
			parts := strings.Fields(rest)
			if cur != nil && len(parts) >= 4 && (parts[0] == "write" || parts[0] == "read") && parts[2] == "requires" {
				// at write|read Struct.field requires [label] expr : obligation at every store to / load from that
				// field made by this function on an object it did not allocate itself (expr over the function's parameters)
				src := strings.TrimSpace(rest[strings.Index(rest, " requires ")+len(" requires "):])
				label, src := splitLabel(src)
				e, err := ParseCExpr(src)
				if err != nil {
					return fail(err)
				}
				if cur.AccessAsserts == nil {
					cur.AccessAsserts = map[string][]*Clause{}
				}
				key := parts[0] + " " + parts[1]
				cur.AccessAsserts[key] = append(cur.AccessAsserts[key], &Clause{Kind: "requires", Label: label, Src: src, Expr: e, File: path, Line: rl.line})
				break
			}
			if cur == nil || len(parts) < 3 || (parts[1] != "requires" && parts[1] != "assumes") {
				return fail(fmt.Errorf("at <callee> requires|assumes <expr>"))
			}
			src := strings.TrimSpace(rest[strings.Index(rest, parts[1])+len(parts[1]):])
			label, src := splitLabel(src)
			e, err := ParseCExpr(src)
			if err != nil {
				return fail(err)
			}
			if cur.CallAsserts == nil {
				cur.CallAsserts = map[string][]*Clause{}
			}
			cur.CallAsserts[parts[0]] = append(cur.CallAsserts[parts[0]], &Clause{Kind: parts[1], Label: label, Src: src, Expr: e, File: path, Line: rl.line})
		case "calls":
			// calls <param> as <extern contract name>
			parts := strings.Fields(rest)
			if cur == nil || len(parts) != 3 || parts[1] != "as" {
				return fail(fmt.Errorf("calls <param> as <contract>"))
			}
			if cur.ParamContracts == nil {
				cur.ParamContracts = map[string]string{}
			}
			cur.ParamContracts[parts[0]] = parts[2]
		case "safety":
			cur.Safety = true
		case "pure":
			cur.Pure = true
		case "noeffect":
			cur.NoEffect = true
		case "havocall":
			cur.HavocAll = true
		case "noreturn":
			cur.NoReturn = true
		case "option":
			kv := strings.SplitN(rest, "=", 2)
			if len(kv) == 2 {
				cur.Options[strings.TrimSpace(kv[0])] = strings.TrimSpace(kv[1])
			} else {
				cur.Options[strings.TrimSpace(rest)] = "1"
			}
		case "bounded":
			fmt.Sscanf(rest, "%d", &cur.Bound)
		case "requires", "ensures", "stable":
			if cur == nil {
				return fail(fmt.Errorf("%s outside a function block", first))
			}
			label, src := splitLabel(rest)
			e, err := ParseCExpr(src)
			if err != nil {
				return fail(err)
			}
			c := &Clause{Kind: first, Label: label, Src: src, Expr: e, File: path, Line: rl.line}
			if first == "stable" {
				// stable e: a representation invariant every callee is ASSUMED to preserve; it is required at
				// entry and assumed again after each call that havocs the whole heap
				cur.Stable = append(cur.Stable, c)
				rc := *c
				rc.Kind = "requires"
				cur.Requires = append(cur.Requires, &rc)
			} else if first == "requires" {
				cur.Requires = append(cur.Requires, c)
			} else {
				cur.Ensures = append(cur.Ensures, c)
			}
		case "modifies":
			if cur == nil {
				return fail(fmt.Errorf("modifies outside a function block"))
			}
			c := &Clause{Kind: "modifies", Src: rest, File: path, Line: rl.line}
			for _, part := range splitTop(rest) {
				e, err := ParseCExpr(part)
				if err != nil {
					return fail(err)
				}
				c.Exprs = append(c.Exprs, e)
			}
			cur.Modifies = append(cur.Modifies, c)
		case "loop":
			if cur == nil {
				return fail(fmt.Errorf("loop outside a function block"))
			}
			var n int
			var kw string
			parts := strings.Fields(rest)
			if len(parts) < 3 {
				return fail(fmt.Errorf("malformed loop clause"))
			}
			fmt.Sscanf(parts[0], "%d", &n)
			kw = parts[1]
			src := strings.TrimSpace(rest[strings.Index(rest, kw)+len(kw):])
			label, src := splitLabel(src)
			e, err := ParseCExpr(src)
			if err != nil {
				return fail(err)
			}
			c := &Clause{Kind: kw, Label: label, Src: src, Expr: e, Loop: n, File: path, Line: rl.line}
			switch kw {
			case "invariant":
				cur.LoopInv[n] = append(cur.LoopInv[n], c)
			case "decreases":
				cur.LoopDec[n] = c
			case "entry":
				// loop N entry [label] e: holds when the loop is first reached (checked there, not an invariant)
				if cur.LoopEntry == nil {
					cur.LoopEntry = map[int][]*Clause{}
				}
				cur.LoopEntry[n] = append(cur.LoopEntry[n], c)
			default:
				return fail(fmt.Errorf("unknown loop clause %q", kw))
			}
		case "spec":
			curLemma, cur = nil, nil
			rest = strings.TrimSpace(strings.TrimPrefix(rest, "func"))
			sf, err := parseSpecFunc(rest)
			if err != nil {
				return fail(err)
			}
			sf.File, sf.Line = path, rl.line
			if _, dup := cs.Specs[sf.Name]; dup {
				return fail(fmt.Errorf("duplicate spec func %s", sf.Name))
			}
			cs.Specs[sf.Name] = sf
			cs.SpecOrder = append(cs.SpecOrder, sf.Name)
		case "pred":
			curLemma, cur = nil, nil
			// pred name(a, b) = expr
			i := strings.Index(rest, "(")
			j := strings.Index(rest, ")")
			k := strings.Index(rest, "=")
			if i < 0 || j < i || k < j {
				return fail(fmt.Errorf("pred name(params) = expr"))
			}
			e, err := ParseCExpr(strings.TrimSpace(rest[k+1:]))
			if err != nil {
				return fail(err)
			}
			if _, dup := cs.Preds[strings.TrimSpace(rest[:i])]; dup {
				// predicates share one name space over all loaded contract files
				return fail(fmt.Errorf("duplicate pred %s", strings.TrimSpace(rest[:i])))
			}
			cs.Preds[strings.TrimSpace(rest[:i])] = &Pred{Name: strings.TrimSpace(rest[:i]), Params: splitList(rest[i+1 : j]), Body: e}
		case "ghost":
			curLemma, cur = nil, nil
			sf, err := parseSpecFunc(rest)
			if err != nil {
				return fail(err)
			}
			g := &Ghost{Name: sf.Name, Result: sf.Result}
			for _, p := range sf.Params {
				g.Params = append(g.Params, p.Sort)
			}
			cs.Ghosts[g.Name] = g
		case "zeroghost":
			// zeroghost G "pkg.T" expr : G(r) == expr for every r freshly allocated as a zero T
			curLemma, cur = nil, nil
			parts := strings.SplitN(rest, " ", 3)
			g, ok := cs.Ghosts[parts[0]]
			if len(parts) != 3 || !ok || len(g.Params) != 1 {
				return fail(fmt.Errorf("zeroghost G \"type\" expr (G a declared one-argument ghost)"))
			}
			e, err := ParseCExpr(strings.TrimSpace(parts[2]))
			if err != nil {
				return fail(err)
			}
			if g.Zero == nil {
				g.Zero = map[string]CExpr{}
			}
			g.Zero[strings.Trim(parts[1], "\"")] = e
		case "const":
			curLemma, cur = nil, nil
			parts := strings.Fields(rest)
			if len(parts) != 2 {
				return fail(fmt.Errorf("const NAME Sort"))
			}
			cs.Consts[parts[0]] = Sort(parts[1])
		case "axiom":
			curLemma, cur = nil, nil
			j := strings.Index(rest, ":")
			if j < 0 {
				return fail(fmt.Errorf("axiom NAME: expr"))
			}
			src := strings.TrimSpace(rest[j+1:])
			e, err := ParseCExpr(src)
			if err != nil {
				return fail(err)
			}
			cs.Axioms = append(cs.Axioms, &Axiom{Name: strings.TrimSpace(rest[:j]), Src: src, Expr: e, File: path, Line: rl.line})
		case "lemma":
			cur = nil
			j := strings.Index(rest, ":")
			if j < 0 {
				return fail(fmt.Errorf("lemma NAME: expr"))
			}
			src := strings.TrimSpace(rest[j+1:])
			e, err := ParseCExpr(src)
			if err != nil {
				return fail(err)
			}
			lm := &Lemma{Name: strings.TrimSpace(rest[:j]), Src: src, Expr: e, File: path, Line: rl.line}
			cs.Lemmas = append(cs.Lemmas, lm)
			curLemma = lm
		case "guarded":
			// guarded Struct.field by mutexField [for C..]
			parts := strings.Fields(rest)
			if len(parts) < 3 || parts[1] != "by" {
				return fail(fmt.Errorf("guarded Struct.field by mutex"))
			}
			sf := strings.SplitN(parts[0], ".", 2)
			if len(sf) != 2 {
				return fail(fmt.Errorf("guarded Struct.field by mutex"))
			}
			g := &Guarded{Struct: sf[0], Field: sf[1], Mutex: parts[2], PkgPath: pkgPath}
			for i := 3; i < len(parts); i++ {
				if parts[i] == "for" {
					continue
				}
				if parts[i] == "rw" {
					g.Read = true
					continue
				}
				if parts[i] == "send" {
					// the field is a wake-up channel: every send on it happens holding the mutex
					g.Send = true
					continue
				}
				if parts[i] == "write" {
					// only writes need the mutex (reads of an immutable-after-publication field are free)
					g.WriteOnly = true
					continue
				}
				g.Props = append(g.Props, strings.Trim(parts[i], ","))
			}
			cs.Guarded = append(cs.Guarded, g)
		case "opaque":
			// opaque <pkg/path.Type>: methods of that type called without a contract of their own are
			// treated as: receiver must not be nil, arbitrary results, every modelled location havoced
			curLemma, cur = nil, nil
			if cs.Opaque == nil {
				cs.Opaque = map[string]bool{}
			}
			for _, t := range strings.Fields(rest) {
				cs.Opaque[strings.Trim(t, ",")] = true
			}
		default:
			return fail(fmt.Errorf("unknown directive %q", first))
		}
	}
	return nil
}

func splitList(s string) []string {
	var out []string
	for _, p := range strings.FieldsFunc(s, func(r rune) bool { return r == ',' || r == ' ' }) {
		if p != "" {
			out = append(out, p)
		}
	}
	return out
}

func splitLabel(s string) (string, string) {
	s = strings.TrimSpace(s)
	if strings.HasPrefix(s, "[") {
		if j := strings.Index(s, "]"); j > 0 {
			return s[1:j], strings.TrimSpace(s[j+1:])
		}
	}
	return "", s
}

// splitTop splits at top-level commas.
func splitTop(s string) []string {
	var out []string
	depth := 0
	start := 0
	for i, c := range s {
		switch c {
		case '(', '[':
			depth++
		case ')', ']':
			depth--
		case ',':
			if depth == 0 {
				out = append(out, strings.TrimSpace(s[start:i]))
				start = i + 1
			}
		}
	}
	if strings.TrimSpace(s[start:]) != "" {
		out = append(out, strings.TrimSpace(s[start:]))
	}
	return out
}

// splitExternHeader parses `NAME(p1, p2) (r1, r2)`; NAME may itself contain
// parentheses, e.g. `(*bufio.Reader).Read(p) (n, err)` or `(io.Writer).Write(p) (n, err)`.
func splitExternHeader(s string) (name string, params, results []string) {
	s = strings.TrimSpace(s)
	// peel trailing groups
	var groups []string
	for strings.HasSuffix(s, ")") {
		depth := 0
		j := len(s) - 1
		for ; j >= 0; j-- {
			if s[j] == ')' {
				depth++
			} else if s[j] == '(' {
				depth--
				if depth == 0 {
					break
				}
			}
		}
		if j < 0 {
			break
		}
		// a group belongs to the name if it is followed by '.' — here we peel from
		// the right, so stop when the remaining prefix is empty (name starts with '(')
		if j == 0 {
			break
		}
		groups = append([]string{s[j+1 : len(s)-1]}, groups...)
		s = strings.TrimSpace(s[:j])
		if len(groups) == 2 {
			break
		}
	}
	name = s
	if len(groups) >= 1 {
		params = splitList(groups[0])
	}
	if len(groups) == 2 {
		results = splitList(groups[1])
	}
	return
}

func parseSpecFunc(s string) (*SpecFunc, error) {
	// name(a Sort, b Sort) Sort [= expr]
	i := strings.Index(s, "(")
	if i < 0 {
		return nil, fmt.Errorf("spec func: missing (")
	}
	sf := &SpecFunc{Name: strings.TrimSpace(s[:i])}
	depth := 0
	j := i
	for ; j < len(s); j++ {
		if s[j] == '(' {
			depth++
		} else if s[j] == ')' {
			depth--
			if depth == 0 {
				break
			}
		}
	}
	if j >= len(s) {
		return nil, fmt.Errorf("spec func: unbalanced parentheses")
	}
	for _, p := range splitTop(s[i+1 : j]) {
		p = strings.TrimSpace(p)
		if p == "" {
			continue
		}
		k := strings.IndexAny(p, " \t")
		if k < 0 {
			sf.Params = append(sf.Params, CVar{Name: fmt.Sprintf("a%d", len(sf.Params)), Sort: Sort(p)})
		} else {
			sf.Params = append(sf.Params, CVar{Name: p[:k], Sort: Sort(strings.TrimSpace(p[k+1:]))})
		}
	}
	rest := strings.TrimSpace(s[j+1:])
	if k := strings.Index(rest, "="); k >= 0 && !strings.HasPrefix(rest[k:], "==") {
		sf.Result = Sort(strings.TrimSpace(rest[:k]))
		sf.DefSrc = strings.TrimSpace(rest[k+1:])
		e, err := ParseCExpr(sf.DefSrc)
		if err != nil {
			return nil, err
		}
		sf.Def = e
	} else {
		sf.Result = Sort(rest)
	}
	if sf.Result == "" {
		return nil, fmt.Errorf("spec func %s: missing result sort", sf.Name)
	}
	return sf, nil
}
