package main

import (
	"fmt"
	"go/types"
	"math/big"
	"sort"
	"strings"

	"golang.org/x/tools/go/ssa"
)

// CV is a contract-level value: a term plus (when known) its Go type.
type CV struct {
	T   Term
	GoT types.Type
}

type CEnv struct {
	ex    *Exec
	w     *World
	st    *State
	vars  map[string]CV
	old   *Heap // heap that old(...) refers to
	inOld bool
	pkg   *ssa.Package
	frame *Frame // for debug-ref lookups of locals (loop invariants)
	cur   *Heap  // overrides st.heap when set
	freshAfter int // fresh(x): born(x) > freshAfter
	depth int
	inPattern bool
}

func (e *CEnv) world() *World {
	if e.w != nil {
		return e.w
	}
	return e.ex.w
}

func (e *CEnv) heap() *Heap {
	if e.inOld && e.old != nil {
		return e.old
	}
	if e.cur != nil {
		return e.cur
	}
	if e.st != nil {
		return e.st.heap
	}
	return &Heap{m: map[string]Term{}}
}

func (e *CEnv) child() *CEnv {
	n := *e
	n.vars = make(map[string]CV, len(e.vars))
	for k, v := range e.vars {
		n.vars[k] = v
	}
	return &n
}

func cerr(format string, args ...interface{}) error { return fmt.Errorf(format, args...) }

func (e *CEnv) Eval(x CExpr) (CV, error) {
	w := e.world()
	switch n := x.(type) {
	case *CInt:
		if strings.HasPrefix(n.Val, "0x") {
			b, ok := new(big.Int).SetString(n.Val[2:], 16)
			if !ok {
				return CV{}, cerr("bad literal %s", n.Val)
			}
			return CV{T: IntLitStr(b.String())}, nil
		}
		return CV{T: IntLitStr(n.Val)}, nil
	case *CStr:
		return CV{T: w.StrLit(n.Val)}, nil
	case *CBool:
		return CV{T: BoolLit(n.Val)}, nil
	case *CNil:
		return CV{T: TNil}, nil
	case *CIdent:
		return e.evalIdent(n.Name)
	case *CUnary:
		v, err := e.Eval(n.X)
		if err != nil {
			return CV{}, err
		}
		if n.Op == "!" {
			if v.T.Sort != SBool {
				return CV{}, cerr("! on non-bool %s", v.T.S)
			}
			return CV{T: Not(v.T)}, nil
		}
		return CV{T: Sub(IntLit(0), v.T), GoT: v.GoT}, nil
	case *CBinary:
		return e.evalBinary(n)
	case *CSel:
		// package-qualified identifier?
		if id, ok := n.X.(*CIdent); ok {
			if _, bound := e.vars[id.Name]; !bound {
				if cv, ok := e.pkgMember(id.Name, n.Field); ok {
					return cv, nil
				}
			}
		}
		v, err := e.Eval(n.X)
		if err != nil {
			return CV{}, err
		}
		return e.selectField(v, n.Field)
	case *CIndex:
		v, err := e.Eval(n.X)
		if err != nil {
			return CV{}, err
		}
		i, err := e.Eval(n.I)
		if err != nil {
			return CV{}, err
		}
		return e.index(v, i)
	case *CSlice:
		return e.evalSlice(n)
	case *CCall:
		return e.evalCall(n)
	case *CQuant:
		c := e.child()
		var binders []string
		for _, v := range n.Vars {
			name := "q!" + v.Name
			c.vars[v.Name] = CV{T: Term{smtSym(name), v.Sort}}
			binders = append(binders, fmt.Sprintf("(%s %s)", smtSym(name), v.Sort))
		}
		body, err := c.Eval(n.Body)
		if err != nil {
			return CV{}, err
		}
		if body.T.Sort != SBool {
			return CV{}, cerr("quantifier body is not boolean")
		}
		kw := "forall"
		if !n.Forall {
			kw = "exists"
		}
		bt := body.T.S
		if len(n.Pats) > 0 {
			var ps []string
			for _, p := range n.Pats {
				c.inPattern = true
				pv, err := c.Eval(p)
				c.inPattern = false
				if err != nil {
					return CV{}, err
				}
				ps = append(ps, pv.T.S)
			}
			bt = fmt.Sprintf("(! %s :pattern (%s))", bt, strings.Join(ps, " "))
		}
		return CV{T: Term{fmt.Sprintf("(%s (%s) %s)", kw, strings.Join(binders, " "), bt), SBool}}, nil
	}
	return CV{}, cerr("unsupported contract expression %T", x)
}

func (e *CEnv) evalIdent(name string) (CV, error) {
	w := e.world()
	if v, ok := e.vars[name]; ok {
		return v, nil
	}
	if e.frame != nil {
		if _, ok := e.frame.env[name]; !ok && e.ex != nil && e.ex.localAlias != nil {
			if now, renamed := e.ex.localAlias[name]; renamed {
				name = now
			}
		}
		if ent, ok := e.frame.env[name]; ok {
			if t, ok := e.frame.regs[ent.v]; ok {
				if ent.isAddr {
					et := deref(ent.v.Type())
					return CV{T: e.ex.load(e.st, e.heap(), t, et), GoT: et}, nil
				}
				return CV{T: t, GoT: ent.v.Type()}, nil
			}
		}
	}
	if name == "bempty" {
		return CV{T: Term{"bempty", SBytes}}, nil
	}
	if s, ok := w.CS.Consts[name]; ok {
		return CV{T: w.D.Const(name, s)}, nil
	}
	if g, ok := w.CS.Ghosts[name]; ok && len(g.Params) == 0 {
		return CV{T: w.heapGet(e.heap(), "G_"+name, g.Result)}, nil
	}
	if e.pkg != nil {
		if cv, ok := e.pkgMemberOf(e.pkg, name); ok {
			return cv, nil
		}
	}
	return CV{}, cerr("unknown identifier %q", name)
}

func (e *CEnv) pkgMember(pkgName, member string) (CV, bool) {
	if e.pkg == nil {
		return CV{}, false
	}
	for _, imp := range e.pkg.Pkg.Imports() {
		if imp.Name() == pkgName {
			if sp := e.world().Prog.Package(imp); sp != nil {
				return e.pkgMemberOf(sp, member)
			}
		}
	}
	// any loaded package of that name
	for _, sp := range e.world().Prog.AllPackages() {
		if sp.Pkg.Name() == pkgName {
			if cv, ok := e.pkgMemberOf(sp, member); ok {
				return cv, true
			}
		}
	}
	return CV{}, false
}

func (e *CEnv) pkgMemberOf(sp *ssa.Package, member string) (CV, bool) {
	w := e.world()
	m := sp.Members[member]
	switch x := m.(type) {
	case *ssa.Global:
		addr := e.ex.globalAddr(x)
		et := deref(x.Type())
		e.ex.markGlobalRO(x)
		return CV{T: e.ex.load(e.st, e.heap(), addr, et), GoT: et}, true
	case *ssa.NamedConst:
		c := x.Value
		return CV{T: e.ex.constTerm(c), GoT: c.Type()}, true
	case *ssa.Function:
		return CV{T: w.FuncRef(x), GoT: x.Type()}, true
	}
	return CV{}, false
}

// coerceBytes turns a []byte / [N]byte / string typed value into its Bytes content.
func (e *CEnv) coerceBytes(v CV) (Term, bool) {
	if v.T.Sort == SBytes {
		return v.T, true
	}
	if v.T.Sort == SSlice && (v.GoT == nil || isByteSlice(v.GoT)) {
		return e.ex.byteContent(e.heap(), v.T), true
	}
	if v.T.Sort == SRef && v.GoT != nil {
		if p, ok := v.GoT.Underlying().(*types.Pointer); ok && isByteArray(p.Elem()) {
			bm := e.world().heapGet(e.heap(), "BM", ArraySort(SRef, SBytes))
			return Select(bm, e.ex.bmKey(v.T)), true
		}
	}
	return Term{}, false
}

func (e *CEnv) evalBinary(n *CBinary) (CV, error) {
	a, err := e.Eval(n.X)
	if err != nil {
		return CV{}, err
	}
	b, err := e.Eval(n.Y)
	if err != nil {
		return CV{}, err
	}
	boolOp := func() error {
		if a.T.Sort != SBool || b.T.Sort != SBool {
			return cerr("operator %s needs booleans: %s (%s) / %s (%s)", n.Op, a.T.S, a.T.Sort, b.T.S, b.T.Sort)
		}
		return nil
	}
	switch n.Op {
	case "&&":
		if err := boolOp(); err != nil {
			return CV{}, err
		}
		return CV{T: And(a.T, b.T)}, nil
	case "||":
		if err := boolOp(); err != nil {
			return CV{}, err
		}
		return CV{T: Or(a.T, b.T)}, nil
	case "==>":
		if err := boolOp(); err != nil {
			return CV{}, err
		}
		return CV{T: Implies(a.T, b.T)}, nil
	case "<==>":
		if err := boolOp(); err != nil {
			return CV{}, err
		}
		return CV{T: Eq(a.T, b.T)}, nil
	case "==", "!=":
		var t Term
		switch {
		case a.T.Sort == SSlice && b.T.S == "nil":
			t = Eq(SBase(a.T), TNil)
		case b.T.Sort == SSlice && a.T.S == "nil":
			t = Eq(SBase(b.T), TNil)
		case a.T.Sort == b.T.Sort && a.T.Sort != SSlice:
			t = Eq(a.T, b.T)
		case a.T.Sort == SSlice && b.T.Sort == SSlice && !(isByteSlice2(a.GoT) || isByteSlice2(b.GoT)):
			t = Eq(a.T, b.T)
		default:
			ab, ok1 := e.coerceBytes(a)
			bb, ok2 := e.coerceBytes(b)
			if !ok1 || !ok2 {
				return CV{}, cerr("cannot compare %s (%s) with %s (%s)", a.T.S, a.T.Sort, b.T.S, b.T.Sort)
			}
			t = Eq(ab, bb)
		}
		if n.Op == "!=" {
			t = Not(t)
		}
		return CV{T: t}, nil
	case "<", "<=", ">", ">=":
		if a.T.Sort != SInt && a.T.Sort != SReal {
			return CV{}, cerr("ordering on %s", a.T.Sort)
		}
		return CV{T: cmp(n.Op, a.T, b.T)}, nil
	case "+", "-", "*":
		if a.T.Sort == SBytes && n.Op == "+" {
			return CV{T: BCat(a.T, b.T)}, nil
		}
		return CV{T: arith(n.Op, a.T, b.T), GoT: a.GoT}, nil
	case "/":
		return CV{T: App(SInt, "div", a.T, b.T)}, nil
	case "%":
		return CV{T: App(SInt, "mod", a.T, b.T)}, nil
	}
	return CV{}, cerr("unknown operator %s", n.Op)
}

func isByteSlice2(t types.Type) bool { return t != nil && isByteSlice(t) }

func (e *CEnv) selectField(v CV, field string) (CV, error) {
	w := e.world()
	if v.GoT == nil || v.T.Sort == SSlice {
		// builtin accessors on Slice terms
		if v.T.Sort == SSlice {
			switch field {
			case "base":
				return CV{T: SBase(v.T)}, nil
			case "off":
				return CV{T: SOff(v.T)}, nil
			case "len":
				return CV{T: SLen(v.T)}, nil
			case "cap":
				return CV{T: SCap(v.T)}, nil
			}
		}
		return CV{}, cerr("field %s of untyped value %s", field, v.T.S)
	}
	t := v.GoT
	isPtr := false
	if p, ok := t.Underlying().(*types.Pointer); ok {
		t = p.Elem()
		isPtr = true
	}
	st, ok := asStruct(t)
	if !ok {
		return CV{}, cerr("field %s of non-struct %s", field, v.GoT)
	}
	// find field (direct, then through embedded structs)
	idx := -1
	for i := 0; i < st.NumFields(); i++ {
		if st.Field(i).Name() == field {
			idx = i
			break
		}
	}
	if idx < 0 {
		for i := 0; i < st.NumFields(); i++ {
			f := st.Field(i)
			if !f.Embedded() {
				continue
			}
			sub, err := e.selectField(v, f.Name())
			if err != nil {
				continue
			}
			if r, err := e.selectField(sub, field); err == nil {
				return r, nil
			}
		}
		return CV{}, cerr("no field %s in %s", field, t)
	}
	ft := st.Field(idx).Type()
	if isPtr {
		addr := e.ex.fieldAddr(v.T, t, idx)
		if _, isStruct := asStruct(ft); isStruct {
			// keep as pointer-like to allow further selection
			return CV{T: addr, GoT: types.NewPointer(ft)}, nil
		}
		return CV{T: e.ex.load(e.st, e.heap(), addr, ft), GoT: ft}, nil
	}
	return CV{T: w.StructGet(t, v.T, idx), GoT: ft}, nil
}

func (e *CEnv) index(v, i CV) (CV, error) {
	w := e.world()
	if k, val, ok := v.T.Sort.IsArray(); ok {
		_ = k
		_ = val
		return CV{T: Select(v.T, i.T)}, nil
	}
	if v.T.Sort == SBytes {
		return CV{T: BAt(v.T, i.T)}, nil
	}
	if v.T.Sort == SSlice {
		if v.GoT == nil || isByteSlice(v.GoT) {
			bm := w.heapGet(e.heap(), "BM", ArraySort(SRef, SBytes))
			return CV{T: BAt(Select(bm, SBase(v.T)), EIdx(SOff(v.T), i.T))}, nil
		}
		elem := v.GoT.Underlying().(*types.Slice).Elem()
		if _, isStruct := asStruct(elem); isStruct {
			addr := e.ex.elemAddr(SBase(v.T), EIdx(SOff(v.T), i.T), elem)
			return CV{T: addr, GoT: types.NewPointer(elem)}, nil
		}
		n, s := w.ElemArray(elem)
		return CV{T: Select(Select(w.heapGet(e.heap(), n, s), SBase(v.T)), EIdx(SOff(v.T), i.T)), GoT: elem}, nil
	}
	if v.GoT != nil {
		if mt, ok := v.GoT.Underlying().(*types.Map); ok {
			_, _, vn, vs := w.MapArrays(mt)
			key := i.T
			if key.Sort == SSlice {
				if b, ok := e.coerceBytes(i); ok {
					key = b
				}
			}
			return CV{T: Select(Select(w.heapGet(e.heap(), vn, vs), v.T), key), GoT: mt.Elem()}, nil
		}
		if p, ok := v.GoT.Underlying().(*types.Pointer); ok && isByteArray(p.Elem()) {
			b, _ := e.coerceBytes(v)
			return CV{T: BAt(b, i.T)}, nil
		}
	}
	return CV{}, cerr("cannot index %s (%s)", v.T.S, v.T.Sort)
}

func (e *CEnv) evalSlice(n *CSlice) (CV, error) {
	v, err := e.Eval(n.X)
	if err != nil {
		return CV{}, err
	}
	var lo, hi Term
	if n.Lo != nil {
		l, err := e.Eval(n.Lo)
		if err != nil {
			return CV{}, err
		}
		lo = l.T
	} else {
		lo = IntLit(0)
	}
	if n.Hi != nil {
		h, err := e.Eval(n.Hi)
		if err != nil {
			return CV{}, err
		}
		hi = h.T
	}
	if b, ok := e.coerceBytes(v); ok {
		if hi.IsZero() {
			hi = BLen(b)
		}
		return CV{T: BSlice(b, lo, hi)}, nil
	}
	if v.T.Sort == SSlice {
		if hi.IsZero() {
			hi = SLen(v.T)
		}
		return CV{T: MkSlice(SBase(v.T), Add(SOff(v.T), lo), Sub(hi, lo), Sub(SCap(v.T), lo)), GoT: v.GoT}, nil
	}
	return CV{}, cerr("cannot slice %s", v.T.S)
}

func (e *CEnv) evalCall(n *CCall) (CV, error) {
	w := e.world()
	evalArgs := func() ([]CV, error) {
		out := make([]CV, len(n.Args))
		for i, a := range n.Args {
			v, err := e.Eval(a)
			if err != nil {
				return nil, err
			}
			out[i] = v
		}
		return out, nil
	}
	switch n.Fn {
	case "old":
		if len(n.Args) != 1 {
			return CV{}, cerr("old takes one argument")
		}
		c := *e
		c.inOld = true
		return c.Eval(n.Args[0])
	case "len":
		args, err := evalArgs()
		if err != nil {
			return CV{}, err
		}
		v := args[0]
		switch {
		case v.T.Sort == SSlice:
			return CV{T: SLen(v.T)}, nil
		case v.T.Sort == SBytes:
			return CV{T: BLen(v.T)}, nil
		case v.GoT != nil:
			if mt, ok := v.GoT.Underlying().(*types.Map); ok {
				pn, ps, _, _ := w.MapArrays(mt)
				return CV{T: e.ex.mapLen(Select(w.heapGet(e.heap(), pn, ps), v.T))}, nil
			}
			if p, ok := v.GoT.Underlying().(*types.Pointer); ok {
				if at, ok := p.Elem().Underlying().(*types.Array); ok {
					return CV{T: IntLit(at.Len())}, nil
				}
			}
		}
		return CV{}, cerr("len of %s", v.T.S)
	case "cap":
		args, err := evalArgs()
		if err != nil {
			return CV{}, err
		}
		return CV{T: SCap(args[0].T)}, nil
	case "bytes":
		args, err := evalArgs()
		if err != nil {
			return CV{}, err
		}
		b, ok := e.coerceBytes(args[0])
		if !ok {
			return CV{}, cerr("bytes() of %s (%s)", args[0].T.S, args[0].T.Sort)
		}
		return CV{T: b}, nil
	case "ite":
		args, err := evalArgs()
		if err != nil {
			return CV{}, err
		}
		if len(args) != 3 {
			return CV{}, cerr("ite takes 3 arguments")
		}
		a, b := args[1], args[2]
		if a.T.Sort != b.T.Sort {
			ab, ok1 := e.coerceBytes(a)
			bb, ok2 := e.coerceBytes(b)
			if ok1 && ok2 {
				return CV{T: Ite(args[0].T, ab, bb)}, nil
			}
			return CV{}, cerr("ite branches of different sorts")
		}
		return CV{T: Ite(args[0].T, a.T, b.T), GoT: a.GoT}, nil
	case "has": // has(m, k): key present in map
		args, err := evalArgs()
		if err != nil {
			return CV{}, err
		}
		m, k := args[0], args[1]
		if m.GoT != nil {
			if mt, ok := m.GoT.Underlying().(*types.Map); ok {
				pn, ps, _, _ := w.MapArrays(mt)
				key := k.T
				if key.Sort == SSlice {
					if b, ok := e.coerceBytes(k); ok {
						key = b
					}
				}
				if e.inPattern {
					return CV{T: Select(Select(w.heapGet(e.heap(), pn, ps), m.T), key)}, nil
				}
				return CV{T: And(Not(Eq(m.T, TNil)), Select(Select(w.heapGet(e.heap(), pn, ps), m.T), key))}, nil
			}
		}
		return CV{}, cerr("has() on non-map")
	case "isfunc": // isfunc(f, "pkg/path.Name"): the function value f is that package-level function
		if len(n.Args) != 2 {
			return CV{}, cerr("isfunc(f, \"pkg/path.Name\")")
		}
		fv, err := e.Eval(n.Args[0])
		if err != nil {
			return CV{}, err
		}
		lit, ok := n.Args[1].(*CStr)
		if !ok {
			return CV{}, cerr("isfunc needs a string literal")
		}
		i := strings.LastIndex(lit.Val, ".")
		if i < 0 {
			return CV{}, cerr("isfunc: %q is not pkg/path.Name", lit.Val)
		}
		for _, sp := range w.Prog.AllPackages() {
			if sp.Pkg.Path() == lit.Val[:i] {
				if fn, ok := sp.Members[lit.Val[i+1:]].(*ssa.Function); ok {
					return CV{T: Eq(fv.T, w.FuncRef(fn))}, nil
				}
			}
		}
		return CV{}, cerr("isfunc: function %s not found", lit.Val)
	case "rangeof": // rangeof(i): the map ranged over by the i-th `for ... range <map>` of the function (source order); loop invariants only
		if len(n.Args) != 1 || e.frame == nil {
			return CV{}, cerr("rangeof(i) is only available in loop invariants")
		}
		lit, ok := n.Args[0].(*CInt)
		if !ok {
			return CV{}, cerr("rangeof needs an integer literal")
		}
		var rs []*ssa.Range
		for _, b := range e.frame.fn.Blocks {
			for _, in := range b.Instrs {
				if r, ok := in.(*ssa.Range); ok {
					if _, isMap := r.X.Type().Underlying().(*types.Map); isMap {
						rs = append(rs, r)
					}
				}
			}
		}
		sort.Slice(rs, func(i, j int) bool { return rs[i].Pos() < rs[j].Pos() })
		idx := 0
		fmt.Sscanf(lit.Val, "%d", &idx)
		if idx < 0 || idx >= len(rs) {
			return CV{}, cerr("rangeof(%d): the function has %d map range loops", idx, len(rs))
		}
		return CV{T: e.ex.operand(e.st, e.frame, rs[idx].X), GoT: rs[idx].X.Type()}, nil
	case "visited": // visited(m, k): key k has been yielded by the range loop over map m that is in progress
		args, err := evalArgs()
		if err != nil {
			return CV{}, err
		}
		m, k := args[0], args[1]
		if m.GoT != nil {
			if mt, ok := m.GoT.Underlying().(*types.Map); ok {
				vn, vs := w.RangeVisitedArray(mt)
				key := k.T
				if key.Sort == SSlice {
					if b, ok := e.coerceBytes(k); ok {
						key = b
					}
				}
				return CV{T: Select(Select(w.heapGet(e.heap(), vn, vs), m.T), key)}, nil
			}
		}
		return CV{}, cerr("visited() on non-map")
	case "mem": // mem(p): the bytes at address p (for *[N]byte passed through interfaces)
		args, err := evalArgs()
		if err != nil {
			return CV{}, err
		}
		bm := w.heapGet(e.heap(), "BM", ArraySort(SRef, SBytes))
		return CV{T: Select(bm, e.ex.bmKey(args[0].T))}, nil
	case "dyntypeof": // dyntypeof(x): the dynamic type (as an opaque integer) of the object x refers to
		args, err := evalArgs()
		if err != nil {
			return CV{}, err
		}
		return CV{T: App(SInt, "dyntype", args[0].T)}, nil
	case "typeis": // typeis(x, "pkg.Type"): dynamic type test
		if len(n.Args) != 2 {
			return CV{}, cerr("typeis(x, \"T\")")
		}
		v, err := e.Eval(n.Args[0])
		if err != nil {
			return CV{}, err
		}
		s, ok := n.Args[1].(*CStr)
		if !ok {
			return CV{}, cerr("typeis needs a string literal")
		}
		id, ok := w.typeIDs[s.Val]
		if !ok {
			t := e.ex.lookupTypeByString(s.Val)
			if t == nil {
				return CV{}, cerr("typeis: unknown type %s", s.Val)
			}
			id = w.TypeID(t)
		}
		return CV{T: And(Not(Eq(v.T, TNil)), Eq(App(SInt, "dyntype", v.T), IntLit(int64(id))))}, nil
	case "select":
		args, err := evalArgs()
		if err != nil {
			return CV{}, err
		}
		return CV{T: Select(args[0].T, args[1].T)}, nil
	case "store":
		args, err := evalArgs()
		if err != nil {
			return CV{}, err
		}
		return CV{T: Store(args[0].T, args[1].T, args[2].T)}, nil
	case "lockstate":
		args, err := evalArgs()
		if err != nil {
			return CV{}, err
		}
		return CV{T: Select(w.heapGet(e.heap(), "LockState", ArraySort(SRef, SInt)), args[0].T)}, nil
	case "locked", "rlocked", "unlocked":
		args, err := evalArgs()
		if err != nil {
			return CV{}, err
		}
		ls := Select(w.heapGet(e.heap(), "LockState", ArraySort(SRef, SInt)), args[0].T)
		switch n.Fn {
		case "locked":
			return CV{T: Eq(ls, IntLit(-1))}, nil
		case "rlocked":
			return CV{T: Or(Gt(ls, IntLit(0)), Eq(ls, IntLit(-1)))}, nil
		default:
			return CV{T: Eq(ls, IntLit(0))}, nil
		}
	case "as": // as(x, "*T"): view a reference under a static Go type of the package
		if len(n.Args) != 2 {
			return CV{}, cerr("as(x, \"T\")")
		}
		v, err := e.Eval(n.Args[0])
		if err != nil {
			return CV{}, err
		}
		sl, ok := n.Args[1].(*CStr)
		if !ok {
			return CV{}, cerr("as needs a string literal")
		}
		var t types.Type
		name := strings.TrimPrefix(sl.Val, "*")
		if e.pkg != nil && !strings.Contains(name, ".") {
			if obj := e.pkg.Pkg.Scope().Lookup(name); obj != nil {
				t = obj.Type()
				if strings.HasPrefix(sl.Val, "*") {
					t = types.NewPointer(t)
				}
			}
		}
		if t == nil {
			t = e.ex.lookupTypeByString(sl.Val)
		}
		if t == nil {
			return CV{}, cerr("as: unknown type %s", sl.Val)
		}
		// a view as the generic type G of a value whose static type is an instantiation G[A] keeps
		// the instantiation: its fields live in the heap arrays of G[A], not in those of G's body
		if v.GoT != nil && sameGenericOrigin(v.GoT, t) {
			return v, nil
		}
		return CV{T: v.T, GoT: t}, nil
	case "unbox": // unbox(x, "string"|"[]byte"|"pkg.T"): the non-reference value an interface holds when typeis(x, T)
		if len(n.Args) != 2 {
			return CV{}, cerr("unbox(x, \"T\")")
		}
		v, err := e.Eval(n.Args[0])
		if err != nil {
			return CV{}, err
		}
		sl, ok := n.Args[1].(*CStr)
		if !ok {
			return CV{}, cerr("unbox needs a string literal")
		}
		t := e.ex.lookupTypeByString(sl.Val)
		if t == nil {
			return CV{}, cerr("unbox: unknown type %s", sl.Val)
		}
		s := w.SortOf(t)
		if s == SRef {
			return CV{T: v.T, GoT: t}, nil
		}
		ub := w.D.Fun(fmt.Sprintf("unbox!%d!%s", w.TypeID(t), sortTag(s)), []Sort{SRef}, s)
		return CV{T: App(s, ub, v.T), GoT: t}, nil
	case "fresh":
		args, err := evalArgs()
		if err != nil {
			return CV{}, err
		}
		r := args[0].T
		if r.Sort == SSlice {
			r = SBase(r)
		}
		if r.Sort != SRef {
			return CV{}, cerr("fresh() of non-reference")
		}
		return CV{T: Gt(App(SInt, "born", r), IntLit(int64(e.freshAfter)))}, nil
	case "sends": // sends(ch): number of send attempts made on channel ch so far (ghost)
		args, err := evalArgs()
		if err != nil {
			return CV{}, err
		}
		return CV{T: Select(w.heapGet(e.heap(), "ChanSends", ArraySort(SRef, SInt)), args[0].T)}, nil
	case "chancap":
		args, err := evalArgs()
		if err != nil {
			return CV{}, err
		}
		return CV{T: Select(w.heapGet(e.heap(), "ChanCap", ArraySort(SRef, SInt)), args[0].T)}, nil
	case "addr": // addr(x.f): the address of a field (for mutexes embedded by value)
		if len(n.Args) != 1 {
			return CV{}, cerr("addr takes one argument")
		}
		return e.evalAddr(n.Args[0])
	case "deref":
		args, err := evalArgs()
		if err != nil {
			return CV{}, err
		}
		v := args[0]
		if v.GoT == nil {
			return CV{}, cerr("deref of untyped value")
		}
		et := deref(v.GoT)
		return CV{T: e.ex.load(e.st, e.heap(), v.T, et), GoT: et}, nil
	case "sub": // sub(s, lo, hi): the sub-slice header s[lo:hi]
		args, err := evalArgs()
		if err != nil {
			return CV{}, err
		}
		if len(args) != 3 || args[0].T.Sort != SSlice {
			return CV{}, cerr("sub(slice, lo, hi)")
		}
		s := args[0].T
		return CV{T: MkSlice(SBase(s), Add(SOff(s), args[1].T), Sub(args[2].T, args[1].T), Sub(SCap(s), args[1].T)), GoT: args[0].GoT}, nil
	case "real":
		args, err := evalArgs()
		if err != nil {
			return CV{}, err
		}
		return CV{T: App(SReal, "to_real", args[0].T)}, nil
	case "rdiv":
		args, err := evalArgs()
		if err != nil {
			return CV{}, err
		}
		return CV{T: App(SReal, "/", args[0].T, args[1].T)}, nil
	case "mkslice":
		args, err := evalArgs()
		if err != nil {
			return CV{}, err
		}
		return CV{T: MkSlice(args[0].T, args[1].T, args[2].T, args[3].T)}, nil
	case "blen", "bat", "bslice", "bcat", "bupd", "bset", "bzero", "dyntype", "tdiv", "trem":
		args, err := evalArgs()
		if err != nil {
			return CV{}, err
		}
		ts := make([]Term, len(args))
		for i, a := range args {
			ts[i] = a.T
			if a.T.Sort == SSlice {
				if b, ok := e.coerceBytes(a); ok {
					ts[i] = b
				}
			}
		}
		rs := SBytes
		switch n.Fn {
		case "blen", "bat", "dyntype", "tdiv", "trem":
			rs = SInt
		}
		return CV{T: App(rs, n.Fn, ts...)}, nil
	}
	// ghost function?
	if g, ok := w.CS.Ghosts[n.Fn]; ok {
		args, err := evalArgs()
		if err != nil {
			return CV{}, err
		}
		if len(args) != len(g.Params) {
			return CV{}, cerr("ghost %s: wrong arity", n.Fn)
		}
		if len(args) == 0 {
			return CV{T: w.heapGet(e.heap(), "G_"+n.Fn, g.Result)}, nil
		}
		if len(args) == 1 {
			arr := w.heapGet(e.heap(), "G_"+n.Fn, ArraySort(g.Params[0], g.Result))
			return CV{T: Select(arr, e.coerceTo(args[0], g.Params[0]))}, nil
		}
		return CV{}, cerr("ghost %s: at most one parameter supported", n.Fn)
	}
	// predicate macro: expanded in the calling environment (may read the heap)
	if pd, ok := w.CS.Preds[n.Fn]; ok {
		args, err := evalArgs()
		if err != nil {
			return CV{}, err
		}
		if len(args) != len(pd.Params) {
			return CV{}, cerr("pred %s: expected %d arguments", n.Fn, len(pd.Params))
		}
		c := e.child()
		for i, p := range pd.Params {
			c.vars[p] = args[i]
		}
		if e.depth > 20 {
			return CV{}, cerr("pred %s: expansion too deep", n.Fn)
		}
		c.depth = e.depth + 1
		return c.Eval(pd.Body)
	}
	// spec function
	if sf, ok := w.CS.Specs[n.Fn]; ok {
		args, err := evalArgs()
		if err != nil {
			return CV{}, err
		}
		if len(args) != len(sf.Params) {
			return CV{}, cerr("spec func %s: expected %d arguments, got %d", n.Fn, len(sf.Params), len(args))
		}
		ts := make([]Term, len(args))
		for i, a := range args {
			ts[i] = e.coerceTo(a, sf.Params[i].Sort)
			if ts[i].Sort != sf.Params[i].Sort {
				return CV{}, cerr("spec func %s: argument %d has sort %s, want %s (%s)", n.Fn, i, ts[i].Sort, sf.Params[i].Sort, ts[i].S)
			}
		}
		w.declareSpec(sf)
		return CV{T: App(sf.Result, smtSym(sf.Name), ts...)}, nil
	}
	return CV{}, cerr("unknown function %q in contract", n.Fn)
}

func (e *CEnv) coerceTo(v CV, s Sort) Term {
	if v.T.Sort == s {
		return v.T
	}
	if s == SBytes {
		if b, ok := e.coerceBytes(v); ok {
			return b
		}
	}
	return v.T
}

// evalAddr evaluates x.f to the address of field f.
func (e *CEnv) evalAddr(x CExpr) (CV, error) {
	if id, isID := x.(*CIdent); isID && e.frame != nil {
		// addr(v): the cell of an address-taken local variable (loop invariants)
		lname := id.Name
		if _, ok := e.frame.env[lname]; !ok && e.ex != nil && e.ex.localAlias != nil {
			if now, renamed := e.ex.localAlias[lname]; renamed {
				lname = now
			}
		}
		if ent, ok := e.frame.env[lname]; ok && ent.isAddr {
			if t, ok := e.frame.regs[ent.v]; ok {
				return CV{T: t, GoT: ent.v.Type()}, nil
			}
		}
		return CV{}, cerr("addr(%s): not an address-taken local", id.Name)
	}
	sel, ok := x.(*CSel)
	if !ok {
		return CV{}, cerr("addr() needs a field selection")
	}
	v, err := e.Eval(sel.X)
	if err != nil {
		return CV{}, err
	}
	if v.GoT == nil {
		return CV{}, cerr("addr(): untyped base")
	}
	p, ok := v.GoT.Underlying().(*types.Pointer)
	if !ok {
		return CV{}, cerr("addr(): base is not a pointer")
	}
	st, ok := asStruct(p.Elem())
	if !ok {
		return CV{}, cerr("addr(): base is not a struct pointer")
	}
	for i := 0; i < st.NumFields(); i++ {
		if st.Field(i).Name() == sel.Field {
			return CV{T: e.ex.fieldAddr(v.T, p.Elem(), i), GoT: types.NewPointer(st.Field(i).Type())}, nil
		}
	}
	return CV{}, cerr("addr(): no field %s", sel.Field)
}

func (w *World) declareSpec(sf *SpecFunc) {
	if w.specSyms[sf.Name] {
		return
	}
	w.specSyms[sf.Name] = true
	args := make([]Sort, len(sf.Params))
	for i, p := range sf.Params {
		args[i] = p.Sort
	}
	w.D.Fun(sf.Name, args, sf.Result)
}

func (ex *Exec) mapLen(present Term) Term {
	k, _, _ := present.Sort.IsArray()
	fn := ex.w.D.Fun("maplen!"+sortTag(k), []Sort{present.Sort}, SInt)
	return App(SInt, fn, present)
}

// sameGenericOrigin: have is (a pointer to) an instantiation of the generic named type want (a pointer to).
func sameGenericOrigin(have, want types.Type) bool {
	hp, hok := types.Unalias(have).(*types.Pointer)
	wp, wok := types.Unalias(want).(*types.Pointer)
	if hok != wok {
		return false
	}
	if hok {
		have, want = hp.Elem(), wp.Elem()
	}
	hn, ok1 := types.Unalias(have).(*types.Named)
	wn, ok2 := types.Unalias(want).(*types.Named)
	if !ok1 || !ok2 {
		return false
	}
	if wn.TypeParams() == nil || wn.TypeParams().Len() == 0 || (wn.TypeArgs() != nil && wn.TypeArgs().Len() > 0) {
		return false
	}
	return hn.TypeArgs() != nil && hn.TypeArgs().Len() > 0 && hn.Origin() == wn
}

func (ex *Exec) lookupTypeByString(s string) types.Type {
	// "*pkg/path.Name" or "pkg/path.Name"; "string" and "[]byte" for boxed basic values
	switch s {
	case "string":
		return types.Typ[types.String]
	case "[]byte":
		return types.NewSlice(types.Universe.Lookup("byte").Type())
	}
	ptr := strings.HasPrefix(s, "*")
	name := strings.TrimPrefix(s, "*")
	i := strings.LastIndex(name, ".")
	if i < 0 {
		return nil
	}
	pkgPath, tn := name[:i], name[i+1:]
	for _, sp := range ex.w.Prog.AllPackages() {
		if sp.Pkg.Path() == pkgPath || sp.Pkg.Name() == pkgPath {
			if obj := sp.Pkg.Scope().Lookup(tn); obj != nil {
				if ptr {
					return types.NewPointer(obj.Type())
				}
				return obj.Type()
			}
		}
	}
	return nil
}

func (ex *Exec) markGlobalRO(g *ssa.Global) {
	if _, ok := ex.w.globalsRO[g]; ok {
		return
	}
	ro := true
	if g.Pkg != nil {
		// read-only unless some function outside init stores to it
		for _, m := range g.Pkg.Members {
			fn, ok := m.(*ssa.Function)
			if !ok || fn.Name() == "init" {
				continue
			}
			if storesTo(fn, g) {
				ro = false
				break
			}
		}
	}
	ex.w.globalsRO[g] = ro
}

func storesTo(fn *ssa.Function, g *ssa.Global) bool {
	for _, b := range fn.Blocks {
		for _, in := range b.Instrs {
			if s, ok := in.(*ssa.Store); ok && s.Addr == g {
				return true
			}
		}
	}
	for _, a := range fn.AnonFuncs {
		if storesTo(a, g) {
			return true
		}
	}
	return false
}
