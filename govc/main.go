package main

import (
	"encoding/json"
	"flag"
	"fmt"
	"go/types"
	"os"
	"path/filepath"
	"sort"
	"strings"
	"time"

	"golang.org/x/tools/go/packages"
	"golang.org/x/tools/go/ssa"
	"golang.org/x/tools/go/ssa/ssautil"
)

type guardInfo struct {
	g       *Guarded
	array   string
	structT types.Type
	muIdx   int
}

// Mutant describes a deliberate change applied through a go/packages overlay
// (the repository itself is not touched).
type Mutant struct {
	File   string   `json:"file"`
	Old    string   `json:"old"`
	New    string   `json:"new"`
	Expect []string `json:"expect"`
	Edits  []struct {
		Old string `json:"old"`
		New string `json:"new"`
	} `json:"edits"`
	Benign bool     `json:"benign"`
	Note   string   `json:"note"`
}

var overlay map[string][]byte

func applyMutant(repo, path string) (*Mutant, error) {
	data, err := os.ReadFile(path)
	if err != nil {
		return nil, err
	}
	var m Mutant
	if err := json.Unmarshal(data, &m); err != nil {
		return nil, err
	}
	f := filepath.Join(repo, m.File)
	src, err := os.ReadFile(f)
	if err != nil {
		return nil, err
	}
	if m.Old == "" && m.New == "" && len(m.Edits) > 0 {
		// several replacements in one file
		text := string(src)
		for _, e := range m.Edits {
			if strings.Count(text, e.Old) != 1 {
				return nil, fmt.Errorf("mutant %s: pattern occurs %d times in %s", path, strings.Count(text, e.Old), m.File)
			}
			text = strings.Replace(text, e.Old, e.New, 1)
		}
		if overlay == nil {
			overlay = map[string][]byte{}
		}
		overlay[f] = []byte(text)
		return &m, nil
	}
	if strings.Count(string(src), m.Old) != 1 {
		return nil, fmt.Errorf("mutant %s: pattern occurs %d times in %s", path, strings.Count(string(src), m.Old), m.File)
	}
	if overlay == nil {
		overlay = map[string][]byte{}
	}
	overlay[f] = []byte(strings.Replace(string(src), m.Old, m.New, 1))
	return &m, nil
}

func loadWorld(repo string, pkgPaths []string, specDir string) (*World, error) {
	w := NewWorld()
	env := os.Environ()
	env = append(env, "GOFLAGS=-mod=mod", "GOPROXY=off", "GOTOOLCHAIN=auto")
	cfg := &packages.Config{
		Mode: packages.NeedName | packages.NeedFiles | packages.NeedCompiledGoFiles | packages.NeedImports |
			packages.NeedTypes | packages.NeedTypesSizes | packages.NeedSyntax | packages.NeedTypesInfo | packages.NeedModule,
		Dir:        repo,
		BuildFlags: []string{"-tags=verif"},
		Env:        env,
		Overlay:    overlay,
	}
	pkgs, err := packages.Load(cfg, pkgPaths...)
	if err != nil {
		return nil, err
	}
	for _, p := range pkgs {
		for _, e := range p.Errors {
			return nil, fmt.Errorf("package %s: %v", p.PkgPath, e)
		}
	}
	prog, spkgs := ssautil.Packages(pkgs, ssa.GlobalDebug)
	for _, sp := range spkgs {
		if sp != nil {
			sp.Build()
			w.SSAPkgs[sp.Pkg.Path()] = sp
		}
	}
	w.Prog = prog
	w.Pkgs = pkgs
	w.CS = NewContractSet()
	// shared specs
	if specDir != "" {
		files, _ := filepath.Glob(filepath.Join(specDir, "*.spec"))
		sort.Strings(files)
		for _, f := range files {
			if err := w.CS.ParseContractFile(f, ""); err != nil {
				return nil, err
			}
		}
	}
	for _, p := range pkgs {
		dir := ""
		if len(p.GoFiles) > 0 {
			dir = filepath.Dir(p.GoFiles[0])
		}
		if dir == "" {
			continue
		}
		f := filepath.Join(dir, "verif_contracts.go")
		if _, err := os.Stat(f); err == nil {
			if err := w.CS.ParseContractFile(f, p.PkgPath); err != nil {
				return nil, err
			}
		}
	}
	// contracts of the repository's other packages that the loaded ones import: used at call sites as the
	// callee's contract (they are verified by the checks that load those packages with their bodies)
	listed := map[string]bool{}
	for _, p := range pkgs {
		listed[p.PkgPath] = true
	}
	modPrefix := ""
	for _, p := range pkgs {
		if p.Module != nil {
			modPrefix = p.Module.Path
		}
	}
	seenDep := map[string]bool{}
	var walk func(p *packages.Package)
	walk = func(p *packages.Package) {
		for _, imp := range p.Imports {
			if seenDep[imp.PkgPath] {
				continue
			}
			seenDep[imp.PkgPath] = true
			if modPrefix == "" || !(imp.PkgPath == modPrefix || strings.HasPrefix(imp.PkgPath, modPrefix+"/")) {
				continue
			}
			if !listed[imp.PkgPath] && len(imp.GoFiles) > 0 {
				f := filepath.Join(filepath.Dir(imp.GoFiles[0]), "verif_contracts.go")
				if _, err := os.Stat(f); err == nil {
					if err := w.CS.ParseContractFile(f, imp.PkgPath); err != nil {
						// vocabulary of another check that this one does not load: not an error here
						w.Note("contracts of imported package " + imp.PkgPath + " not usable in this run: " + err.Error())
					}
				}
			}
			walk(imp)
		}
	}
	for _, p := range pkgs {
		walk(p)
	}
	if err := w.prepareAxioms(); err != nil {
		return nil, err
	}
	return w, nil
}

// prepareAxioms turns spec definitions and axioms into SMT assertions.
func (w *World) prepareAxioms() error {
	ex := &Exec{w: w, fc: &FuncContract{}, uncontracted: map[string]int{}, usedContracts: map[string]bool{}}
	for _, name := range w.CS.SpecOrder {
		w.declareSpec(w.CS.Specs[name])
	}
	for name, s := range w.CS.Consts {
		w.D.Const(name, s)
	}
	for _, name := range w.CS.SpecOrder {
		sf := w.CS.Specs[name]
		if sf.Def == nil {
			continue
		}
		env := &CEnv{ex: ex, w: w, vars: map[string]CV{}}
		var binders []string
		var args []Term
		for _, p := range sf.Params {
			t := Term{smtSym("a!" + p.Name), p.Sort}
			env.vars[p.Name] = CV{T: t}
			binders = append(binders, fmt.Sprintf("(%s %s)", t.S, p.Sort))
			args = append(args, t)
		}
		body, err := env.Eval(sf.Def)
		if err != nil {
			return fmt.Errorf("%s:%d: spec func %s: %v", sf.File, sf.Line, sf.Name, err)
		}
		app := App(sf.Result, smtSym(sf.Name), args...)
		var text string
		if len(binders) == 0 {
			text = fmt.Sprintf("(assert (= %s %s))", app.S, body.T.S)
		} else {
			text = fmt.Sprintf("(assert (forall (%s) (! (= %s %s) :pattern (%s))))", strings.Join(binders, " "), app.S, body.T.S, app.S)
		}
		w.userAx = append(w.userAx, smtAxiom{name: "def:" + sf.Name, syms: []string{smtSym(sf.Name)}, text: text})
	}
	for _, ax := range w.CS.Axioms {
		env := &CEnv{ex: ex, w: w, vars: map[string]CV{}}
		cv, err := env.Eval(ax.Expr)
		if err != nil {
			return fmt.Errorf("%s:%d: axiom %s: %v", ax.File, ax.Line, ax.Name, err)
		}
		syms := map[string]bool{}
		symbolsOf(cv.T.S, syms)
		var trig []string
		for s := range syms {
			name := strings.Trim(s, "|")
			if _, ok := w.CS.Specs[name]; ok {
				trig = append(trig, s)
			}
		}
		sort.Strings(trig)
		w.userAx = append(w.userAx, smtAxiom{name: ax.Name, syms: trig, text: "(assert " + cv.T.S + ")"})
	}
	return nil
}

func pkgFunctions(prog *ssa.Program, sp *ssa.Package) map[string]*ssa.Function {
	out := map[string]*ssa.Function{}
	// function literals are addressable as PARENT$n (go/ssa's ordinal, in source order)
	var add func(fn *ssa.Function)
	add = func(fn *ssa.Function) {
		out[fn.RelString(sp.Pkg)] = fn
		for _, a := range fn.AnonFuncs {
			add(a)
		}
	}
	for _, m := range sp.Members {
		switch x := m.(type) {
		case *ssa.Function:
			add(x)
		case *ssa.Type:
			if n, ok := x.Type().(*types.Named); ok {
				for i := 0; i < n.NumMethods(); i++ {
					if fn := prog.FuncValue(n.Method(i)); fn != nil {
						add(fn)
					}
				}
			}
		}
	}
	return out
}

type funcReport struct {
	Name        string   `json:"name"`
	Package     string   `json:"package"`
	Kind        string   `json:"kind"`
	Paths       int      `json:"paths"`
	Returns     int      `json:"normal_returns"`
	Obligations int      `json:"obligations"`
	Discharged  int      `json:"discharged"`
	Bounded     int      `json:"bounded,omitempty"`
	Aborted     string   `json:"aborted,omitempty"`
	Uncontracted []string `json:"uncontracted_calls,omitempty"`
	Uses        []string `json:"contracts_used,omitempty"`
}

func main() {
	if len(os.Args) < 2 {
		fmt.Fprintln(os.Stderr, "usage: govc check|dump ...")
		os.Exit(2)
	}
	switch os.Args[1] {
	case "check":
		os.Exit(cmdCheck(os.Args[2:]))
	case "dump":
		os.Exit(cmdDump(os.Args[2:]))
	default:
		fmt.Fprintln(os.Stderr, "unknown command")
		os.Exit(2)
	}
}

func cmdDump(args []string) int {
	fs := flag.NewFlagSet("dump", flag.ExitOnError)
	repo := fs.String("repo", "/repo", "repository")
	pkgs := fs.String("pkgs", "", "packages")
	fnName := fs.String("func", "", "function")
	fs.Parse(args)
	w, err := loadWorld(*repo, strings.Split(*pkgs, ","), "")
	if err != nil {
		fmt.Fprintln(os.Stderr, err)
		return 2
	}
	for _, sp := range w.SSAPkgs {
		fns := pkgFunctions(w.Prog, sp)
		for _, n := range sortedKeys(fns) {
			if *fnName == "" {
				fmt.Println(sp.Pkg.Path(), n)
				continue
			}
			if n == *fnName {
				fns[n].WriteTo(os.Stdout)
				for _, a := range fns[n].AnonFuncs {
					a.WriteTo(os.Stdout)
				}
			}
		}
	}
	return 0
}

func cmdCheck(args []string) int {
	fs := flag.NewFlagSet("check", flag.ExitOnError)
	repo := fs.String("repo", "/repo", "repository root")
	prop := fs.String("prop", "", "property id")
	tier := fs.String("tier", "quick", "quick|thorough")
	pkgsFlag := fs.String("pkgs", "", "comma separated package paths")
	specDir := fs.String("spec", "/verif/spec", "shared spec directory")
	out := fs.String("out", "", "evidence file")
	only := fs.String("only", "", "only this function (debug)")
	verbose := fs.Bool("v", false, "verbose")
	keep := fs.String("keep", "", "directory to keep failing scripts")
	known := fs.String("known", "/verif/known_findings.txt", "known findings file")
	replayDir := fs.String("replays", "/verif/replays", "replay output directory")
	level := fs.String("level", "proof", "evidence level")
	notDecided := fs.String("notdecided", "", "file with the not-decided clauses of the property")
	dbg := fs.Bool("debug", false, "panic on engine errors")
	mutant := fs.String("mutant", "", "apply a mutant (JSON) through an overlay")
	sigsIn := fs.String("sigs", "/verif/spec/sigs.json", "snapshot of parameter/local names the contracts were written against")
	sigsOut := fs.String("sigsout", "", "update the snapshot with the names found in this run")
	fs.Parse(args)
	if *mutant != "" {
		if _, err := applyMutant(*repo, *mutant); err != nil {
			fmt.Fprintln(os.Stderr, "govc:", err)
			return 2
		}
	}
	debugPanics = *dbg
	newSigs := map[string]sigSnap{}
	t0 := time.Now()
	seed := 0
	if s := os.Getenv("VERIF_SEED"); s != "" {
		fmt.Sscanf(s, "%d", &seed)
	}

	w, err := loadWorld(*repo, strings.Split(*pkgsFlag, ","), *specDir)
	if err != nil {
		fmt.Fprintln(os.Stderr, "govc: load error:", err)
		return 2
	}
	loadSecs := time.Since(t0).Seconds()

	hasProp := func(ps []string) bool {
		if *prop == "" {
			return true
		}
		for _, p := range ps {
			if p == *prop {
				return true
			}
		}
		return false
	}

	var obs []*Obligation
	var reports []*funcReport
	var toolErrors []string
	trusted := []string{}
	// functions under contract
	keys := sortedKeys(w.CS.Funcs)
	fnIndex := map[string]map[string]*ssa.Function{}
	for _, key := range keys {
		fc := w.CS.Funcs[key]
		if !hasProp(fc.Props) {
			continue
		}
		if *only != "" && fc.Name != *only {
			continue
		}
		sp := w.SSAPkgs[fc.PkgPath]
		if sp == nil {
			// an imported package's contract: used at call sites here, verified by the checks that load that package
			w.Note("contract of " + fc.PkgPath + "." + fc.Name + " is used as given in this run (its package is imported, not loaded with bodies)")
			continue
		}
		if fnIndex[fc.PkgPath] == nil {
			fnIndex[fc.PkgPath] = pkgFunctions(w.Prog, sp)
		}
		fn := fnIndex[fc.PkgPath][fc.Name]
		rep := &funcReport{Name: fc.Name, Package: fc.PkgPath, Kind: fc.Kind}
		reports = append(reports, rep)
		if fn == nil {
			// the function under contract has disappeared: the obligations it carried are undischarged
			ob := &Obligation{Name: fc.Name + ".exists", Kind: "post", Func: fc.Name, Src: "function under contract exists", Goal: TFalse, Expect: "unsat", Result: "undecided", Solver: "none", Output: "function " + fc.Name + " not found in " + fc.PkgPath, Props: fc.Props}
			obs = append(obs, ob)
			rep.Aborted = "function not found"
			continue
		}
		if fc.Kind == "trusted" {
			trusted = append(trusted, fc.PkgPath+"."+fc.Name)
			continue
		}
		ex := &Exec{w: w, fn: fn, fc: fc, pkg: sp, maxPaths: 4000, uncontracted: map[string]int{}, usedContracts: map[string]bool{}}
		ex.guards = w.guardsFor(sp, *prop)
		if w.sigs == nil {
			w.sigs = loadSigs(*sigsIn)
		}
		if *sigsOut != "" {
			var ps []string
			for _, p := range fn.Params {
				ps = append(ps, p.Name())
			}
			newSigs[fn.String()] = sigSnap{Params: ps, Locals: localNames(fn)}
		}
		ex.Run()
		rep.Paths = ex.paths
		rep.Returns = ex.returns
		rep.Uncontracted = sortedKeys(ex.uncontracted)
		if *verbose && len(rep.Uncontracted) > 0 {
			fmt.Printf("  uncontracted calls in %s: %s\n", fc.Name, strings.Join(rep.Uncontracted, ", "))
		}
		rep.Uses = sortedKeys(ex.usedContracts)
		if ex.aborted == "" {
			// an `at <callee>` clause that matches no contracted call would be silently vacuous
			for _, callee := range sortedKeys(fc.CallAsserts) {
				if !ex.usedContracts["func "+callee] && !ex.usedContracts["extern "+callee] && !ex.usedContracts["trusted "+callee] {
					ex.aborted = fmt.Sprintf("`at %s` matches no call made under a contract of that name (contracts used: %s)", callee, strings.Join(rep.Uses, ", "))
				}
			}
			for _, key := range sortedKeys(fc.AccessAsserts) {
				if !ex.accessUsed[key] {
					ex.aborted = fmt.Sprintf("`at %s` matches no access to that field of an object the function did not allocate", key)
				}
			}
		}
		if ex.aborted != "" {
			rep.Aborted = ex.aborted
			ob := &Obligation{Name: fn.Name() + ".verified", Kind: "post", Func: fn.String(), Src: "function could be analysed", Goal: TFalse, Expect: "unsat", Result: "undecided", Solver: "none", Output: ex.aborted, Props: fc.Props}
			obs = append(obs, ob)
			toolErrors = append(toolErrors, fn.String()+": "+ex.aborted)
		}
		if ex.returns == 0 && ex.aborted == "" && !fc.NoReturn {
			toolErrors = append(toolErrors, fn.String()+": no path reaches a normal return (vacuous)")
		}
		obs = append(obs, ex.obs...)
	}
	if *sigsOut != "" {
		if err := saveSigs(*sigsOut, newSigs); err != nil {
			fmt.Fprintln(os.Stderr, "govc: sigs:", err)
		}
	}
	// lemmas
	lemmaEx := &Exec{w: w, fc: &FuncContract{}, uncontracted: map[string]int{}, usedContracts: map[string]bool{}}
	for _, lm := range w.CS.Lemmas {
		if !hasProp(lm.Props) || *only != "" {
			continue
		}
		env := &CEnv{ex: lemmaEx, w: w, vars: map[string]CV{}}
		cv, err := env.Eval(lm.Expr)
		if err != nil {
			toolErrors = append(toolErrors, fmt.Sprintf("%s:%d: lemma %s: %v", lm.File, lm.Line, lm.Name, err))
			continue
		}
		obs = append(obs, &Obligation{Name: lm.Name, Kind: "lemma", Func: "lemma " + lm.Name, Pos: fmt.Sprintf("%s:%d", filepath.Base(lm.File), lm.Line), Src: lm.Src, Goal: cv.T, Expect: "unsat", Props: lm.Props})
		// a lemma checked in this run may be used by the function obligations of this run
		syms := map[string]bool{}
		symbolsOf(cv.T.S, syms)
		var trig []string
		for s := range syms {
			if _, ok := w.CS.Specs[strings.Trim(s, "|")]; ok {
				trig = append(trig, s)
			}
		}
		sort.Strings(trig)
		w.lemmaAx = append(w.lemmaAx, smtAxiom{name: "lemma:" + lm.Name, syms: trig, text: "(assert " + cv.T.S + ")"})
	}

	// lock-order discipline over everything executed in this run
	if lob := w.lockOrder.obligation(*prop); lob != nil && *only == "" {
		obs = append(obs, lob)
	}

	// consistency canary: the axioms in scope must not be refutable
	obs = append(obs, &Obligation{Name: "axioms.canary", Kind: "canary", Func: "axioms", Src: "axioms in scope are not contradictory", Goal: TFalse, Expect: "sat"})

	// disambiguate duplicate obligation names (several paths)
	seen := map[string]int{}
	for _, ob := range obs {
		seen[ob.Name]++
		ob.pathNo = seen[ob.Name]
	}

	tmp, err := os.MkdirTemp("", "govc")
	if err != nil {
		fmt.Fprintln(os.Stderr, err)
		return 2
	}
	defer os.RemoveAll(tmp)
	cfg := &SolveConfig{Tier: *tier, Timeout: 10, Dir: tmp, Seed: seed}
	if *tier == "thorough" {
		cfg.Timeout = 60
		cfg.AllAgree = true
	}
	// a must-fail run only has to show one failing obligation: no long retry of what nobody answered
	cfg.NoRetry = *mutant != "" && os.Getenv("GOVC_MUTANT_RETRY") == ""
	tSolve := time.Now()
	w.SolveAll(obs, cfg, 16)
	solveSecs := time.Since(tSolve).Seconds()

	return report(w, obs, reports, toolErrors, trusted, reportCfg{
		prop: *prop, tier: *tier, seed: seed, out: *out, verbose: *verbose, keep: *keep, known: *known,
		replayDir: *replayDir, level: *level, loadSecs: loadSecs, solveSecs: solveSecs, t0: t0, notDecided: *notDecided, pkgs: *pkgsFlag, repo: *repo,
	})
}

func (w *World) guardsFor(sp *ssa.Package, prop string) []*guardInfo {
	var out []*guardInfo
	for _, g := range w.CS.Guarded {
		if g.PkgPath != sp.Pkg.Path() {
			continue
		}
		if prop != "" && len(g.Props) > 0 {
			ok := false
			for _, p := range g.Props {
				if p == prop {
					ok = true
				}
			}
			if !ok {
				continue
			}
		}
		obj := sp.Pkg.Scope().Lookup(g.Struct)
		if obj == nil {
			continue
		}
		st, ok := asStruct(obj.Type())
		if !ok {
			continue
		}
		fi, mi := -1, -1
		for i := 0; i < st.NumFields(); i++ {
			if st.Field(i).Name() == g.Field {
				fi = i
			}
			if st.Field(i).Name() == g.Mutex {
				mi = i
			}
		}
		if fi < 0 || mi < 0 {
			continue
		}
		an, _ := w.FieldArray(obj.Type(), fi)
		out = append(out, &guardInfo{g: g, array: an, structT: obj.Type(), muIdx: mi})
	}
	return out
}

type reportCfg struct {
	prop, tier, out, keep, known, replayDir, level, notDecided, pkgs, repo string
	seed                                                                  int
	verbose                                                               bool
	loadSecs, solveSecs                                                   float64
	t0                                                                    time.Time
}

type obJSON struct {
	Name   string  `json:"name"`
	Kind   string  `json:"kind"`
	Func   string  `json:"func"`
	Pos    string  `json:"pos,omitempty"`
	Src    string  `json:"src,omitempty"`
	Result string  `json:"result"`
	Solver string  `json:"solver"`
	Secs   float64 `json:"secs"`
}

func report(w *World, obs []*Obligation, reports []*funcReport, toolErrors, trusted []string, rc reportCfg) int {
	known := loadKnown(rc.known, rc.prop)
	total, discharged, bounded, boundedOK := 0, 0, 0, 0
	bySolver := map[string]int{}
	byKind := map[string]int{}
	var failing []*Obligation
	var solverTime float64
	var samples []obJSON
	perFunc := map[string]*funcReport{}
	for _, r := range reports {
		perFunc[r.Name] = r
	}
	for _, ob := range obs {
		solverTime += ob.Time
		if ob.Bounded {
			bounded++
			if ob.Result == "discharged" {
				boundedOK++
			}
		} else {
			total++
			if ob.Result == "discharged" {
				discharged++
			}
		}
		byKind[ob.Kind]++
		if ob.Result == "discharged" {
			bySolver[strings.Split(ob.Solver, ",")[0]]++
		} else {
			failing = append(failing, ob)
		}
		if rc.verbose {
			fmt.Printf("  %-11s %-12s %s  [%s %.2fs] %s\n", ob.Result, ob.Kind, ob.Name, ob.Solver, ob.Time, ob.Pos)
		}
	}
	for _, ob := range obs {
		if len(samples) < 12 && ob.Solver != "trivial" {
			samples = append(samples, obJSON{ob.Name, ob.Kind, ob.Func, ob.Pos, ob.Src, ob.Result, ob.Solver, ob.Time})
		}
	}
	// the slowest discharged obligations: how much margin the timeouts leave
	var slow []*Obligation
	for _, ob := range obs {
		if ob.Result == "discharged" && ob.Kind != "cover" && ob.Kind != "canary" {
			slow = append(slow, ob)
		}
	}
	sort.Slice(slow, func(i, j int) bool { return slow[i].Time > slow[j].Time })
	for i, ob := range slow {
		if i >= 8 {
			break
		}
		samples = append(samples, obJSON{ob.Name + " (slowest #" + fmt.Sprint(i+1) + ")", ob.Kind, ob.Func, ob.Pos, ob.Src, ob.Result, ob.Solver, ob.Time})
	}
	// report violations
	violations := 0
	notAttempted := 0
	knownHit := map[string]bool{}
	exit := 0
	reported := map[string]bool{}
	for _, ob := range failing {
		if ob.Kind == "canary" {
			if ob.Result == "refuted" {
				toolErrors = append(toolErrors, "axioms are contradictory (canary unsat): "+ob.Solver+" script: "+writeReplay(w, ob, rc))
			} else {
				discharged++
			}
			continue
		}
		if ob.Kind == "cover" && ob.Result == "undecided" {
			// cover checks that time out are not alarms
			w.Note("cover check undecided: " + ob.Name)
			if ob.Bounded {
				boundedOK++
			} else {
				discharged++
			}
			continue
		}
		if ob.Solver == "not attempted" && strings.HasPrefix(ob.Output, "more than") {
			notAttempted++
			continue
		}
		if k, ok := known[ob.Name]; ok {
			if !knownHit[ob.Name] {
				fmt.Printf("KNOWN-FINDING: property=%s %s\n", rc.prop, strings.TrimSpace(strings.TrimPrefix(k, "property="+rc.prop)))
				knownHit[ob.Name] = true
			}
			// a recorded finding is not part of the proof claim: it is listed separately
			if ob.Bounded {
				bounded--
			} else {
				total--
			}
			continue
		}
		if reported[ob.Name] {
			violations++
			continue
		}
		reported[ob.Name] = true
		violations++
		exit = 1
		path := writeReplay(w, ob, rc)
		suffix := ""
		if !ob.replayed {
			suffix = " no-failing-input-found"
		}
		fmt.Printf("VIOLATION property=%s replay=%s obligation=%s result=%s func=%s at=%s%s\n", rc.prop, path, ob.Name, ob.Result, ob.Func, ob.Pos, suffix)
	}
	for _, e := range toolErrors {
		fmt.Printf("TOOL-ERROR: %s\n", e)
		exit = 1
	}
	if total == 0 {
		fmt.Println("TOOL-ERROR: no obligations generated (vacuous check)")
		exit = 1
	}
	// evidence
	if rc.out != "" {
		var fnList []map[string]interface{}
		for _, r := range reports {
			fnList = append(fnList, map[string]interface{}{"name": r.Package + "." + r.Name, "kind": r.Kind, "paths": r.Paths, "normal_returns": r.Returns, "aborted": r.Aborted, "uncontracted_calls": r.Uncontracted, "contracts_used": r.Uses})
		}
		var externs []string
		used := map[string]bool{}
		for _, r := range reports {
			for _, u := range r.Uses {
				used[u] = true
			}
		}
		for u := range used {
			if strings.HasPrefix(u, "extern ") || strings.HasPrefix(u, "trusted ") {
				externs = append(externs, u)
			}
		}
		sort.Strings(externs)
		tb := []string{
			"govc (this repository's own VC generator: go/ssa symbolic execution, contract parser, SMT encoding) — unverified",
			"SMT solvers z3 5.1.0, z3 4.8.12, cvc5 1.0",
			"golang.org/x/tools/go/ssa v0.50.0 translation of the Go sources",
		}
		for _, t := range trusted {
			tb = append(tb, "trusted func (body not verified): "+t)
		}
		for _, e := range externs {
			tb = append(tb, "assumed contract: "+e)
		}
		var axNames []string
		for _, ax := range w.CS.Axioms {
			axNames = append(axNames, ax.Name)
		}
		assumptions := []string{
			"signed integer arithmetic treated as mathematical (no overflow); unsigned arithmetic and all integer conversions are exact modulo 2^N",
			"byte slices: contents modelled as values of an uninterpreted sequence sort per backing array; append never aliases its argument",
			"calls into dependencies follow their extern contracts or the stated package policy (pure / no effect); see trusted_base",
			"goroutines, channel operations and select are not given interleaving semantics",
			"termination is not proved except where a decreases clause is discharged",
			"axioms assumed: " + strings.Join(axNames, ", "),
			"byte strings have no extensionality axiom: equalities of byte strings are proved structurally or pointwise",
			"one thread at a time: a function is verified as if nothing else ran between its critical sections; state guarded by a lock is not havoced when the lock is re-acquired (lock, wait/notify, lock-order and send disciplines are checked instead)",
			"uncontracted callees are lock-balanced (they return with the caller's locks as they found them) and a callee that may observe cancellation lets any context become cancelled",
			"a package-level map initialised by a composite literal with constant keys and never written outside its initialiser has the content of its literal (read from the working tree on every run)",
			"identifiers of a contract that no longer exist in the code are bound by position from spec/sigs.json (every obligation is still generated from, and checked against, the current code)",
		}
		for _, n := range w.NotesList() {
			if strings.HasPrefix(n, "ASSUMED") || strings.HasPrefix(n, "policy ") || strings.HasPrefix(n, "vacuity:") || strings.HasPrefix(n, "contract of ") || strings.HasPrefix(n, "constant table") {
				assumptions = append(assumptions, n)
			}
		}
		if rc.notDecided != "" {
			if data, err := os.ReadFile(rc.notDecided); err == nil {
				for _, l := range strings.Split(string(data), "\n") {
					l = strings.TrimSpace(l)
					if strings.HasPrefix(l, rc.prop+":") {
						assumptions = append(assumptions, "not decided: "+strings.TrimSpace(strings.TrimPrefix(l, rc.prop+":")))
					}
				}
			}
		}
		ev := map[string]interface{}{
			"property_id": rc.prop,
			"tier":        rc.tier,
			"seed":        rc.seed,
			"level":       rc.level,
			"coverage": map[string]interface{}{
				"obligations":          total,
				"discharged":           discharged,
				"bounded_obligations":  bounded,
				"bounded_discharged":   boundedOK,
				"obligations_by_kind":  byKind,
				"discharged_by_solver": bySolver,
				"solver_time_s":        round2(solverTime),
				"load_time_s":          round2(rc.loadSecs),
				"checker_cmd":          fmt.Sprintf("/verif/check %s --tier %s", rc.prop, rc.tier),
				"trusted_base":         tb,
				"functions_under_contract": fnList,
				"samples":              samples,
				"engine_notes":         w.NotesList(),
				"known_findings_matched": sortedKeys(boolMapToAny(knownHit)),
				"packages":             rc.pkgs,
			},
			"assumptions": assumptions,
			"wall_s":      round2(time.Since(rc.t0).Seconds()),
			"violations":  violations,
		}
		data, _ := json.MarshalIndent(ev, "", " ")
		os.MkdirAll(filepath.Dir(rc.out), 0o755)
		if err := os.WriteFile(rc.out, data, 0o644); err != nil {
			fmt.Fprintln(os.Stderr, "cannot write evidence:", err)
			return 2
		}
	}
	if notAttempted > 0 {
		fmt.Printf("govc: %d obligations not attempted after 12 distinct obligations had failed\n", notAttempted)
	}
	fmt.Printf("govc: property=%s tier=%s functions=%d obligations=%d discharged=%d bounded=%d/%d failing=%d solver=%.1fs wall=%.1fs\n",
		rc.prop, rc.tier, len(reports), total, discharged, boundedOK, bounded, violations, solverTime, time.Since(rc.t0).Seconds())
	return exit
}

func boolMapToAny(m map[string]bool) map[string]bool { return m }

func round2(f float64) float64 { return float64(int(f*100+0.5)) / 100 }

// loadKnown reads "finding:" lines for a property: obligation name -> text.
func loadKnown(path, prop string) map[string]string {
	out := map[string]string{}
	data, err := os.ReadFile(path)
	if err != nil {
		return out
	}
	for _, l := range strings.Split(string(data), "\n") {
		l = strings.TrimSpace(l)
		if !strings.HasPrefix(l, "finding:") {
			continue
		}
		rest := strings.TrimSpace(strings.TrimPrefix(l, "finding:"))
		fields := strings.Fields(rest)
		var p, o string
		for _, f := range fields {
			if strings.HasPrefix(f, "property=") {
				p = strings.TrimPrefix(f, "property=")
			}
			if strings.HasPrefix(f, "obligation=") {
				o = strings.TrimPrefix(f, "obligation=")
			}
		}
		if p == prop && o != "" {
			out[o] = rest
		}
	}
	return out
}

func writeReplay(w *World, ob *Obligation, rc reportCfg) string {
	dir := filepath.Join(rc.replayDir, rc.prop)
	os.MkdirAll(dir, 0o755)
	name := strings.NewReplacer("/", "_", " ", "_", "(", "", ")", "", "*", "").Replace(ob.Name)
	path := filepath.Join(dir, name+".json")
	rep := map[string]interface{}{
		"property":   rc.prop,
		"obligation": ob.Name,
		"kind":       ob.Kind,
		"function":   ob.Func,
		"position":   ob.Pos,
		"clause":     ob.Src,
		"result":     ob.Result,
		"solver":     ob.Solver,
		"path":       ob.Trace,
		"solver_output": ob.Output,
		"model":      firstLines(ob.ModelOut, 400),
		"replayed_on_real_code": ob.replayed,
		"replay_note": ob.replayNote,
	}
	data, _ := json.MarshalIndent(rep, "", " ")
	os.WriteFile(path, data, 0o644)
	if ob.scriptText != "" {
		os.WriteFile(filepath.Join(dir, name+".smt2"), []byte(ob.scriptText), 0o644)
	}
	return path
}
