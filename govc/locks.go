package main

import (
	"go/token"
	"go/types"

	"golang.org/x/tools/go/ssa"
)

// guardCheck: guarded-by discipline (filled in below when the function's
// package declares guarded fields).
func (ex *Exec) guardCheck(st *State, addr Term, write bool, pos token.Pos) {
	w := ex.w
	a := w.addr[addr.S]
	if a == nil || a.Kind != "field" {
		return
	}
	for _, g := range ex.guards {
		if a.Array != g.array {
			continue
		}
		// the mutex is a field of the same struct: its address is fld!S.mutex(base)
		mu := ex.fieldAddr(a.Base, g.structT, g.muIdx)
		ls := Select(w.heapGet(st.heap, "LockState", ArraySort(SRef, SInt)), mu)
		var goal Term
		if write || !g.g.Read {
			goal = Eq(ls, IntLit(-1))
		} else {
			goal = Or(Eq(ls, IntLit(-1)), Gt(ls, IntLit(0)))
		}
		// objects allocated by this very function are not yet shared
		for _, al := range st.allocs {
			if al.S == a.Base.S {
				return
			}
		}
		kind := "read"
		if write {
			kind = "write"
		}
		ex.addOb(st, "guard", ex.fn.Name()+".guard."+g.g.Struct+"."+g.g.Field+"."+kind, g.g.Struct+"."+g.g.Field+" accessed holding "+g.g.Mutex, pos, goal)
	}
}

func (ex *Exec) selectHook(st *State, fr *Frame, x *ssa.Select, out []Term) {}

func (ex *Exec) checkLockPost(st *State, pos token.Pos) {}

// initLocks: mutexes embedded (by value) in a freshly allocated object start unlocked.
func (ex *Exec) initLocks(st *State, base Term, t types.Type, depth int) {
	stt, ok := asStruct(t)
	if !ok || depth > 3 {
		return
	}
	w := ex.w
	for i := 0; i < stt.NumFields(); i++ {
		ft := stt.Field(i).Type()
		if n, ok := types.Unalias(ft).(*types.Named); ok && n.Obj().Pkg() != nil && n.Obj().Pkg().Path() == "sync" &&
			(n.Obj().Name() == "Mutex" || n.Obj().Name() == "RWMutex") {
			addr := ex.fieldAddr(base, t, i)
			ls := w.heapGet(st.heap, "LockState", ArraySort(SRef, SInt))
			w.heapSet(st.heap, "LockState", Store(ls, addr, IntLit(0)))
			continue
		}
		if _, isStruct := asStruct(ft); isStruct {
			ex.initLocks(st, ex.fieldAddr(base, t, i), ft, depth+1)
		}
	}
}
