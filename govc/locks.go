package main

import (
	"fmt"
	"go/token"
	"go/types"
	"strings"

	"golang.org/x/tools/go/ssa"
)

// guardCheck: guarded-by discipline (filled in below when the function's
// package declares guarded fields).
func (ex *Exec) guardCheck(st *State, addr Term, write bool, pos token.Pos) {
	w := ex.w
	a := w.addr[addr.S]
	if a == nil || a.Kind != "field" {
		return
	}
	ex.accessAsserts(st, a, write, pos)
	for _, g := range ex.guards {
		if a.Array != g.array || g.g.Send {
			continue
		}
		if g.g.WriteOnly && !write {
			continue
		}
		// the mutex is a field of the same struct: its address is fld!S.mutex(base)
		mu := ex.fieldAddr(a.Base, g.structT, g.muIdx)
		ls := Select(w.heapGet(st.heap, "LockState", ArraySort(SRef, SInt)), mu)
		var goal Term
		if write || !g.g.Read {
			goal = Eq(ls, IntLit(-1))
		} else {
			goal = Or(Eq(ls, IntLit(-1)), Gt(ls, IntLit(0)))
		}
		// objects allocated by this very function are not yet shared
		for _, al := range st.allocs {
			if al.S == a.Base.S {
				return
			}
		}
		kind := "read"
		if write {
			kind = "write"
		}
		ex.addOb(st, "guard", ex.fn.Name()+".guard."+g.g.Struct+"."+g.g.Field+"."+kind, g.g.Struct+"."+g.g.Field+" accessed holding "+g.g.Mutex, pos, goal)
	}
}

// accessAsserts: `at write|read S.f requires e` clauses of the function under contract: an obligation at
// every store to / load from field f of an S the function did not allocate itself.
func (ex *Exec) accessAsserts(st *State, a *Addr, write bool, pos token.Pos) {
	if len(ex.fc.AccessAsserts) == 0 {
		return
	}
	kind := "read"
	if write {
		kind = "write"
	}
	for _, key := range sortedKeys(ex.fc.AccessAsserts) {
		if !strings.HasPrefix(key, kind+" ") || !strings.HasSuffix(a.Array, "."+key[len(kind)+1:]) {
			continue
		}
		for _, al := range st.allocs {
			if al.S == a.Base.S {
				return
			}
		}
		if ex.accessUsed == nil {
			ex.accessUsed = map[string]bool{}
		}
		ex.accessUsed[key] = true
		env := ex.contractEnv(st, ex.entry)
		for i, c := range ex.fc.AccessAsserts[key] {
			cv, err := env.Eval(c.Expr)
			if err != nil {
				ex.aborted = fmt.Sprintf("%s:%d: at %s requires: %v", c.File, c.Line, key, err)
				return
			}
			ex.addOb(st, "guard", ex.obName(fmt.Sprintf("access.%s.%d", strings.ReplaceAll(key, " ", "."), i), c.Label), c.Src, pos, cv.T)
		}
	}
}

// selectHook: sends on a wake-up channel declared `guarded S.f by mu send`
// must happen while holding mu (rule W2 of the wait/notify protocol).
func (ex *Exec) selectHook(st *State, fr *Frame, x *ssa.Select, out []Term) {
	w := ex.w
	// a receive from ctx.Done() can only be selected once ctx is cancelled;
	// while blocked, other threads may cancel any context (monotone havoc)
	havoced := false
	for i, s := range x.States {
		if s.Dir != types.RecvOnly {
			continue
		}
		call, ok := s.Chan.(*ssa.Call)
		if !ok || !call.Call.IsInvoke() || call.Call.Method.Name() != "Done" || types.TypeString(call.Call.Value.Type(), nil) != "context.Context" {
			continue
		}
		if _, declared := w.CS.Ghosts["cancelled"]; !declared {
			continue
		}
		as := ArraySort(SRef, SBool)
		if !havoced {
			oldC := w.heapGet(st.heap, "G_cancelled", as)
			nc := w.Fresh("cancelled!select", as)
			st.assume(Term{fmt.Sprintf("(forall ((r!q Ref)) (! (=> (select %s r!q) (select %s r!q)) :pattern ((select %s r!q))))", oldC.S, nc.S, nc.S), SBool})
			w.heapSet(st.heap, "G_cancelled", nc)
			havoced = true
		}
		ctx := ex.operand(st, fr, call.Call.Value)
		st.assume(Implies(Eq(out[0], IntLit(int64(i))), Select(w.heapGet(st.heap, "G_cancelled", as), ctx)))
	}
	for _, s := range x.States {
		if s.Dir == types.SendOnly {
			ex.sendGuard(st, fr, s.Chan, x.Pos())
			ex.countSend(st, ex.operand(st, fr, s.Chan))
		}
	}
}

func (ex *Exec) sendGuard(st *State, fr *Frame, ch ssa.Value, pos token.Pos) {
	un, ok := ch.(*ssa.UnOp)
	if !ok || un.Op != token.MUL {
		return
	}
	fa, ok := un.X.(*ssa.FieldAddr)
	if !ok {
		return
	}
	stT := deref(fa.X.Type())
	w := ex.w
	an, _ := w.FieldArray(stT, fa.Field)
	for _, g := range ex.guards {
		if !g.g.Send || g.array != an {
			continue
		}
		base := ex.operand(st, fr, fa.X)
		mu := ex.fieldAddr(base, g.structT, g.muIdx)
		ls := Select(w.heapGet(st.heap, "LockState", ArraySort(SRef, SInt)), mu)
		ex.addOb(st, "guard", ex.fn.Name()+".guard."+g.g.Struct+"."+g.g.Field+".send", "send on "+g.g.Struct+"."+g.g.Field+" while holding "+g.g.Mutex, pos, Eq(ls, IntLit(-1)))
	}
}

func (ex *Exec) checkLockPost(st *State, pos token.Pos) {}

// initLocks: mutexes embedded (by value) in a freshly allocated object start unlocked.
func (ex *Exec) initLocks(st *State, base Term, t types.Type, depth int) {
	if n, ok := types.Unalias(t).(*types.Named); ok && depth == 0 && n.Obj().Pkg() != nil && n.Obj().Pkg().Path() == "sync" &&
		(n.Obj().Name() == "Mutex" || n.Obj().Name() == "RWMutex") {
		ls := ex.w.heapGet(st.heap, "LockState", ArraySort(SRef, SInt))
		ex.w.heapSet(st.heap, "LockState", Store(ls, base, IntLit(0)))
		return
	}
	stt, ok := asStruct(t)
	if !ok || depth > 3 {
		return
	}
	w := ex.w
	for i := 0; i < stt.NumFields(); i++ {
		ft := stt.Field(i).Type()
		if n, ok := types.Unalias(ft).(*types.Named); ok && n.Obj().Pkg() != nil && n.Obj().Pkg().Path() == "sync" &&
			(n.Obj().Name() == "Mutex" || n.Obj().Name() == "RWMutex") {
			addr := ex.fieldAddr(base, t, i)
			ls := w.heapGet(st.heap, "LockState", ArraySort(SRef, SInt))
			w.heapSet(st.heap, "LockState", Store(ls, addr, IntLit(0)))
			continue
		}
		if _, isStruct := asStruct(ft); isStruct {
			ex.initLocks(st, ex.fieldAddr(base, t, i), ft, depth+1)
		}
	}
}

// countSend: ghost count of send attempts per channel (blocking or not).
func (ex *Exec) countSend(st *State, ch Term) {
	w := ex.w
	cs := w.heapGet(st.heap, "ChanSends", ArraySort(SRef, SInt))
	w.heapSet(st.heap, "ChanSends", Store(cs, ch, Add(Select(cs, ch), IntLit(1))))
}
