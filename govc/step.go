package main

import (
	"fmt"
	"go/token"
	"go/types"
	"math/big"
	"strings"

	"golang.org/x/tools/go/ssa"
)

func (ex *Exec) safetyOn() bool { return ex.fc.Safety }

func (ex *Exec) safety(st *State, what string, pos token.Pos, goal Term) {
	if !ex.safetyOn() {
		return
	}
	ex.addOb(st, "safety", ex.fn.Name()+".safety."+what, what, pos, goal)
	// continue under the assumption that the operation did not panic
	st.assumeBranch(goal)
}

func (ex *Exec) wrapInt(t Term, gt types.Type) Term {
	if isUnsigned(gt) {
		if n, ok := t.isIntLit(); ok && n >= 0 && intBits(gt) == 64 {
			return t
		}
		return App(SInt, "mod", t, pow2(intBits(gt)))
	}
	return t
}

// convInt converts an integer term from type src to type dst (two's complement).
func (ex *Exec) convInt(t Term, src, dst types.Type) Term {
	slo, shi, ok1 := intBounds(src)
	dlo, dhi, ok2 := intBounds(dst)
	if !ok1 || !ok2 {
		return t
	}
	if n, ok := t.isIntLit(); ok {
		b := big.NewInt(n)
		if b.Cmp(dlo) >= 0 && b.Cmp(dhi) <= 0 {
			return t
		}
	}
	if slo.Cmp(dlo) >= 0 && shi.Cmp(dhi) <= 0 {
		return t
	}
	bits := intBits(dst)
	if isUnsigned(dst) {
		return App(SInt, "mod", t, pow2(bits))
	}
	half := pow2(bits - 1)
	return Sub(App(SInt, "mod", Add(t, half), pow2(bits)), half)
}

func (ex *Exec) step(st *State, fr *Frame, in ssa.Instruction) (forks []*State, done bool) {
	w := ex.w
	switch x := in.(type) {
	case *ssa.DebugRef:
		if id, ok := x.Expr.(interface{ String() string }); ok {
			_ = id
		}
		if obj := x.Object(); obj != nil {
			if prev, ok := fr.env[obj.Name()]; ok && prev.isAddr && !x.IsAddr {
				if _, isConst := x.X.(*ssa.Const); isConst {
					// `var v T = <constant>` of an address-taken local: keep the cell, not the initial value
					return nil, false
				}
			}
			fr.env[obj.Name()] = envEntry{x.X, x.IsAddr}
		}
		return nil, false

	case *ssa.Alloc:
		r := ex.allocRef(st, x.Comment)
		et := deref(x.Type())
		if _, isStruct := asStruct(et); isStruct {
			w.addr[r.S] = &Addr{Kind: "struct", Base: r}
		}
		ex.store(st, r, w.Zero(et), et)
		ex.initLocks(st, r, et, 0)
		ex.zeroGhosts(st, r, et)
		fr.regs[x] = r
		// a named local is visible to loop invariants from its declaration on (its first
		// DebugRef may only come later, inside the loop body)
		if c := x.Comment; c != "" && c != "complit" && c != "new" && c != "varargs" && !strings.ContainsAny(c, " .()[]") {
			if _, seen := fr.env[c]; !seen {
				fr.env[c] = envEntry{x, true}
			}
		}
		return nil, false

	case *ssa.Phi:
		// executed when entering a non-loop block
		vals := map[ssa.Value]Term{}
		ex.evalPhisInto(st, fr, fr.block, fr.prev, vals)
		n := 0
		for _, i2 := range fr.block.Instrs {
			p, ok := i2.(*ssa.Phi)
			if !ok {
				break
			}
			fr.regs[p] = vals[p]
			n++
		}
		fr.idx = n
		return nil, false

	case *ssa.BinOp:
		fr.regs[x] = ex.binop(st, x.Op, ex.operand(st, fr, x.X), ex.operand(st, fr, x.Y), x.X.Type(), x.Y.Type(), x.Type(), x.Pos())
		return nil, false

	case *ssa.UnOp:
		a := ex.operand(st, fr, x.X)
		switch x.Op {
		case token.MUL:
			if ex.w.addr[a.S] == nil {
				ex.safety(st, "nil-deref", x.Pos(), Not(Eq(a, TNil)))
			}
			ex.guardCheck(st, a, false, x.Pos())
			v := ex.load(st, st.heap, a, x.Type())
			if _, isStruct := asStruct(x.Type()); !isStruct {
				ex.assumeTypedB(st, v, x.Type(), ex.loadBound(st.heap, a, x.Type()))
			}
			fr.regs[x] = v
		case token.NOT:
			fr.regs[x] = Not(a)
		case token.SUB:
			if a.Sort == SReal {
				fr.regs[x] = App(SReal, "-", a)
			} else {
				fr.regs[x] = ex.wrapInt(Sub(IntLit(0), a), x.Type())
			}
		case token.XOR:
			if isUnsigned(x.Type()) {
				fr.regs[x] = Sub(Sub(pow2(intBits(x.Type())), IntLit(1)), a)
			} else {
				fr.regs[x] = Sub(Sub(IntLit(0), a), IntLit(1))
			}
		case token.ARROW:
			w.Note("channel receive: value havoced")
			if x.CommaOk {
				v := w.Fresh("recv", w.SortOf(x.Type().(*types.Tuple).At(0).Type()))
				fr.tuples[x] = []Term{v, w.Fresh("recvok", SBool)}
			} else {
				fr.regs[x] = w.Fresh("recv", w.SortOf(x.Type()))
			}
		default:
			panic("unop " + x.Op.String())
		}
		return nil, false

	case *ssa.Store:
		a := ex.operand(st, fr, x.Addr)
		v := ex.operand(st, fr, x.Val)
		if ex.w.addr[a.S] == nil {
			ex.safety(st, "nil-deref", x.Pos(), Not(Eq(a, TNil)))
		}
		ex.guardCheck(st, a, true, x.Pos())
		ex.store(st, a, v, x.Val.Type())
		return nil, false

	case *ssa.FieldAddr:
		base := ex.operand(st, fr, x.X)
		ex.safety(st, "nil-deref", x.Pos(), Not(Eq(base, TNil)))
		fr.regs[x] = ex.fieldAddr(base, deref(x.X.Type()), x.Field)
		return nil, false

	case *ssa.Field:
		fr.regs[x] = w.StructGet(x.X.Type(), ex.operand(st, fr, x.X), x.Field)
		return nil, false

	case *ssa.IndexAddr:
		base := ex.operand(st, fr, x.X)
		idx := ex.operand(st, fr, x.Index)
		switch t := x.X.Type().Underlying().(type) {
		case *types.Slice:
			ex.safety(st, "index", x.Pos(), And(Le(IntLit(0), idx), Lt(idx, SLen(base))))
			fr.regs[x] = ex.elemAddr(SBase(base), EIdx(SOff(base), idx), t.Elem())
		case *types.Pointer:
			at := t.Elem().Underlying().(*types.Array)
			ex.safety(st, "nil-deref", x.Pos(), Not(Eq(base, TNil)))
			ex.safety(st, "index", x.Pos(), And(Le(IntLit(0), idx), Lt(idx, IntLit(at.Len()))))
			if isByte(at.Elem()) {
				fr.regs[x] = ex.elemAddr(base, idx, at.Elem())
			} else {
				// element i of the array p points to is element i of the slice p[:]
				fr.regs[x] = ex.elemAddr(base, idx, at.Elem())
			}
		default:
			panic("indexaddr on " + x.X.Type().String())
		}
		return nil, false

	case *ssa.Index:
		base := ex.operand(st, fr, x.X)
		idx := ex.operand(st, fr, x.Index)
		switch t := x.X.Type().Underlying().(type) {
		case *types.Basic: // string
			ex.safety(st, "index", x.Pos(), And(Le(IntLit(0), idx), Lt(idx, BLen(base))))
			fr.regs[x] = BAt(base, idx)
		case *types.Array:
			ex.safety(st, "index", x.Pos(), And(Le(IntLit(0), idx), Lt(idx, IntLit(t.Len()))))
			if isByte(t.Elem()) {
				fr.regs[x] = BAt(base, idx)
			} else {
				fr.regs[x] = Select(base, idx)
			}
		default:
			w.Note("index on " + x.X.Type().String())
			fr.regs[x] = w.Fresh("index", w.SortOf(x.Type()))
		}
		return nil, false

	case *ssa.Lookup:
		m := ex.operand(st, fr, x.X)
		k := ex.operand(st, fr, x.Index)
		if mt, ok := x.X.Type().Underlying().(*types.Map); ok {
			pn, ps, vn, vs := w.MapArrays(mt)
			present := Select(Select(w.heapGet(st.heap, pn, ps), m), k)
			val := Select(Select(w.heapGet(st.heap, vn, vs), m), k)
			present = And(Not(Eq(m, TNil)), present)
			val = Ite(present, val, w.Zero(mt.Elem()))
			if x.CommaOk {
				fr.tuples[x] = []Term{val, present}
			} else {
				fr.regs[x] = val
			}
			ex.assumeTyped(st, val, mt.Elem())
		} else { // string index
			ex.safety(st, "index", x.Pos(), And(Le(IntLit(0), k), Lt(k, BLen(m))))
			fr.regs[x] = BAt(m, k)
		}
		return nil, false

	case *ssa.MapUpdate:
		m := ex.operand(st, fr, x.Map)
		k := ex.operand(st, fr, x.Key)
		v := ex.operand(st, fr, x.Value)
		ex.safety(st, "nil-map-write", x.Pos(), Not(Eq(m, TNil)))
		mt := x.Map.Type().Underlying().(*types.Map)
		pn, ps, vn, vs := w.MapArrays(mt)
		pa := w.heapGet(st.heap, pn, ps)
		va := w.heapGet(st.heap, vn, vs)
		w.heapSet(st.heap, pn, Store(pa, m, Store(Select(pa, m), k, TTrue)))
		w.heapSet(st.heap, vn, Store(va, m, Store(Select(va, m), k, v)))
		return nil, false

	case *ssa.MakeMap:
		r := ex.allocRef(st, "map")
		mt := x.Type().Underlying().(*types.Map)
		pn, ps, _, _ := w.MapArrays(mt)
		pa := w.heapGet(st.heap, pn, ps)
		ks := w.SortOf(mt.Key())
		w.heapSet(st.heap, pn, Store(pa, r, Term{fmt.Sprintf("((as const %s) false)", ArraySort(ks, SBool)), ArraySort(ks, SBool)}))
		fr.regs[x] = r
		return nil, false

	case *ssa.MakeChan:
		r := ex.allocRef(st, "chan")
		sz := ex.operand(st, fr, x.Size)
		capArr := w.heapGet(st.heap, "ChanCap", ArraySort(SRef, SInt))
		w.heapSet(st.heap, "ChanCap", Store(capArr, r, sz))
		fr.regs[x] = r
		return nil, false

	case *ssa.MakeSlice:
		ln := ex.operand(st, fr, x.Len)
		cp := ex.operand(st, fr, x.Cap)
		ex.safety(st, "makeslice-len", x.Pos(), And(Le(IntLit(0), ln), Le(ln, cp)))
		ex.makeSliceHook(st, x, ln, cp)
		r := ex.allocRef(st, "slice")
		elem := x.Type().Underlying().(*types.Slice).Elem()
		if isByte(elem) {
			bm := w.heapGet(st.heap, "BM", ArraySort(SRef, SBytes))
			w.heapSet(st.heap, "BM", Store(bm, r, App(SBytes, "bzero", cp)))
		} else if _, isStruct := asStruct(elem); !isStruct {
			n, s := w.ElemArray(elem)
			arr := w.heapGet(st.heap, n, s)
			_, inner, _ := s.IsArray()
			w.heapSet(st.heap, n, Store(arr, r, Term{fmt.Sprintf("((as const %s) %s)", inner, w.Zero(elem).S), inner}))
		}
		fr.regs[x] = MkSlice(r, IntLit(0), ln, cp)
		return nil, false

	case *ssa.MakeClosure:
		r := ex.allocRef(st, "closure")
		var binds []Term
		for _, b := range x.Bindings {
			binds = append(binds, ex.operand(st, fr, b))
		}
		st.closures[r.S] = x
		st.cloBind[r.S] = binds
		fr.regs[x] = r
		return nil, false

	case *ssa.MakeInterface:
		v := ex.operand(st, fr, x.X)
		fr.regs[x] = ex.makeInterface(st, v, x.X.Type())
		return nil, false

	case *ssa.ChangeInterface:
		fr.regs[x] = ex.operand(st, fr, x.X)
		return nil, false

	case *ssa.ChangeType:
		fr.regs[x] = ex.operand(st, fr, x.X)
		return nil, false

	case *ssa.Convert:
		fr.regs[x] = ex.convert(st, ex.operand(st, fr, x.X), x.X.Type(), x.Type())
		return nil, false

	case *ssa.MultiConvert:
		w.Note("multiconvert havoced")
		fr.regs[x] = w.Fresh("mconv", w.SortOf(x.Type()))
		return nil, false

	case *ssa.SliceToArrayPointer:
		s := ex.operand(st, fr, x.X)
		w.Note("slice to array pointer: treated as base pointer")
		fr.regs[x] = SBase(s)
		return nil, false

	case *ssa.TypeAssert:
		ex.typeAssert(st, fr, x)
		return nil, false

	case *ssa.Extract:
		tup, ok := fr.tuples[x.Tuple]
		if !ok {
			panic("extract from non-tuple " + x.Tuple.Name())
		}
		fr.regs[x] = tup[x.Index]
		return nil, false

	case *ssa.Slice:
		ex.sliceOp(st, fr, x)
		return nil, false

	case *ssa.Range:
		fr.regs[x] = w.Fresh("rangeiter", SRef)
		if mt, isM := x.X.Type().Underlying().(*types.Map); isM {
			// exhaustive enumeration: the set of keys already yielded, per map, starts empty
			m := ex.operand(st, fr, x.X)
			vn, vs := w.RangeVisitedArray(mt)
			ks := w.SortOf(mt.Key())
			arr := w.heapGet(st.heap, vn, vs)
			w.heapSet(st.heap, vn, Store(arr, m, Term{fmt.Sprintf("((as const %s) false)", ArraySort(ks, SBool)), ArraySort(ks, SBool)}))
		}
		return nil, false

	case *ssa.Next:
		tt := x.Type().(*types.Tuple)
		ok := w.Fresh("next!ok", SBool)
		var kv, vv Term
		if tt.At(1).Type() != nil && !isInvalid(tt.At(1).Type()) {
			kv = w.Fresh("next!k", w.SortOf(tt.At(1).Type()))
			ex.assumeTyped(st, kv, tt.At(1).Type())
		} else {
			kv = TNil
		}
		if tt.At(2).Type() != nil && !isInvalid(tt.At(2).Type()) {
			vv = w.Fresh("next!v", w.SortOf(tt.At(2).Type()))
			ex.assumeTyped(st, vv, tt.At(2).Type())
		} else {
			vv = TNil
		}
		// for maps: a yielded key is present and the value is the stored one
		if rg, isR := x.Iter.(*ssa.Range); isR && !x.IsString {
			if mt, isM := rg.X.Type().Underlying().(*types.Map); isM {
				m := ex.operand(st, fr, rg.X)
				pn, ps, vn, vs := w.MapArrays(mt)
				key := kv
				if key.Sort != w.SortOf(mt.Key()) || key.S == "nil" && w.SortOf(mt.Key()) != SRef {
					key = w.Fresh("next!k", w.SortOf(mt.Key())) // key not bound by the loop: still some present key
				}
				st.assume(Implies(ok, And(Not(Eq(m, TNil)), Select(Select(w.heapGet(st.heap, pn, ps), m), key))))
				// a map is enumerated exhaustively and without repetition: the yielded key was
				// not yet visited; when the enumeration ends every present key has been visited
				rvn, rvs := w.RangeVisitedArray(mt)
				rv := w.heapGet(st.heap, rvn, rvs)
				st.assume(Implies(ok, Not(Select(Select(rv, m), key))))
				present := Select(w.heapGet(st.heap, pn, ps), m)
				st.assume(Implies(Not(ok), Term{fmt.Sprintf("(forall ((k!q %s)) (! (=> (select %s k!q) (select (select %s %s) k!q)) :pattern ((select %s k!q))))", w.SortOf(mt.Key()), present.S, rv.S, m.S, present.S), SBool}))
				w.heapSet(st.heap, rvn, Store(rv, m, Ite(ok, Store(Select(rv, m), key, TTrue), Select(rv, m))))
				if vv.Sort == w.SortOf(mt.Elem()) && vv.S != "nil" {
					st.assume(Implies(ok, Eq(vv, Select(Select(w.heapGet(st.heap, vn, vs), m), key))))
				}
			}
		}
		fr.tuples[x] = []Term{ok, kv, vv}
		return nil, false

	case *ssa.Select:
		w.Note("select statement: outcome havoced")
		tt := x.Type().(*types.Tuple)
		out := make([]Term, tt.Len())
		for i := 0; i < tt.Len(); i++ {
			out[i] = w.Fresh(fmt.Sprintf("select!%d", i), w.SortOf(tt.At(i).Type()))
		}
		n := len(x.States)
		if !x.Blocking {
			st.assume(And(Le(IntLit(-1), out[0]), Lt(out[0], IntLit(int64(n)))))
		} else {
			st.assume(And(Le(IntLit(0), out[0]), Lt(out[0], IntLit(int64(n)))))
		}
		ex.selectHook(st, fr, x, out)
		fr.tuples[x] = out
		return nil, false

	case *ssa.Send:
		w.Note("channel send: not modelled")
		ex.sendGuard(st, fr, x.Chan, x.Pos())
		ex.countSend(st, ex.operand(st, fr, x.Chan))
		return nil, false

	case *ssa.Go:
		w.Note("go statement: spawned goroutine not modelled")
		ex.goHook(st, fr, x)
		return nil, false

	case *ssa.Defer:
		d := deferred{call: &x.Call, pos: x.Pos()}
		if !x.Call.IsInvoke() {
			if _, isB := x.Call.Value.(*ssa.Builtin); !isB {
				d.fnv = ex.operand(st, fr, x.Call.Value)
			}
		} else {
			d.fnv = ex.operand(st, fr, x.Call.Value)
		}
		for _, a := range x.Call.Args {
			d.args = append(d.args, ex.operand(st, fr, a))
		}
		fr.defers = append(fr.defers, d)
		return nil, false

	case *ssa.RunDefers:
		return ex.runDefers(st, fr)

	case *ssa.Panic:
		ex.panicReached(st, x.Pos(), "explicit panic")
		return ex.unwindPanic(st)

	case *ssa.Call:
		return ex.doCall(st, fr, &x.Call, x, nil)

	case *ssa.Jump:
		return ex.jump(st, fr, fr.block.Succs[0])

	case *ssa.If:
		c := ex.operand(st, fr, x.Cond)
		tb, fb := fr.block.Succs[0], fr.block.Succs[1]
		if c.S == "true" {
			return ex.jump(st, fr, tb)
		}
		if c.S == "false" {
			return ex.jump(st, fr, fb)
		}
		other := st.clone()
		st.assumeBranch(c)
		st.trace = append(st.trace, fmt.Sprintf("%s: branch taken", w.posStr(x.Cond.Pos())))
		other.assumeBranch(Not(c))
		other.trace = append(other.trace, fmt.Sprintf("%s: branch not taken", w.posStr(x.Cond.Pos())))
		var out []*State
		f1, d1 := ex.jump(st, st.top(), tb)
		out = append(out, f1...)
		if !d1 {
			out = append(out, st)
		}
		f2, d2 := ex.jump(other, other.top(), fb)
		out = append(out, f2...)
		if !d2 {
			out = append(out, other)
		}
		if len(out) == 0 {
			return nil, true
		}
		return out, false

	case *ssa.Return:
		var res []Term
		for _, r := range x.Results {
			res = append(res, ex.operand(st, fr, r))
		}
		return ex.doReturn(st, fr, res, x.Pos())
	}
	panic(fmt.Sprintf("unsupported instruction %T", in))
}

func isInvalid(t types.Type) bool {
	b, ok := t.(*types.Basic)
	return ok && b.Kind() == types.Invalid
}

func (ex *Exec) elemAddr(base, absIdx Term, elem types.Type) Term {
	w := ex.w
	sym := w.D.Fun("elemref", []Sort{SRef, SInt}, SRef)
	t := App(SRef, sym, base, absIdx)
	if _, ok := w.addr[t.S]; ok {
		return t
	}
	if isByte(elem) {
		w.addr[t.S] = &Addr{Kind: "belem", Base: base, Idx: absIdx, Elem: SInt}
		return t
	}
	if _, isStruct := asStruct(elem); isStruct {
		w.addr[t.S] = &Addr{Kind: "struct", Base: t}
		return t
	}
	n, s := w.ElemArray(elem)
	w.addr[t.S] = &Addr{Kind: "elem", Array: n, ASort: s, Base: base, Idx: absIdx, Elem: w.SortOf(elem)}
	return t
}

func (ex *Exec) arrElemAddr(ptr, idx Term, arrT, elem types.Type) Term {
	w := ex.w
	sym := w.D.Fun("aelemref", []Sort{SRef, SInt}, SRef)
	t := App(SRef, sym, ptr, idx)
	if _, ok := w.addr[t.S]; ok {
		return t
	}
	if _, isStruct := asStruct(elem); isStruct {
		w.addr[t.S] = &Addr{Kind: "struct", Base: t}
		return t
	}
	n, s := w.CellArray(arrT)
	// if ptr itself is a tracked cell (field/alloc), use its array
	if a := w.addr[ptr.S]; a != nil && (a.Kind == "field" || a.Kind == "cell") {
		w.addr[t.S] = &Addr{Kind: "elem", Array: a.Array, ASort: a.ASort, Base: a.Base, Idx: idx, Elem: w.SortOf(elem)}
		return t
	}
	w.addr[t.S] = &Addr{Kind: "elem", Array: n, ASort: s, Base: ptr, Idx: idx, Elem: w.SortOf(elem)}
	return t
}

func (ex *Exec) binop(st *State, op token.Token, a, b Term, at, bt, rt types.Type, pos token.Pos) Term {
	w := ex.w
	switch op {
	case token.EQL, token.NEQ:
		var e Term
		switch {
		case a.Sort == SSlice:
			// only comparison with nil is legal in Go
			if b.S == NilSlice.S {
				e = Eq(SBase(a), TNil)
			} else {
				e = Eq(SBase(b), TNil)
			}
		default:
			if a.Sort != b.Sort {
				w.Note(fmt.Sprintf("comparison across sorts %s/%s", a.Sort, b.Sort))
				e = w.Fresh("cmp", SBool)
			} else {
				e = Eq(a, b)
			}
		}
		if op == token.NEQ {
			return Not(e)
		}
		return e
	case token.LSS, token.LEQ, token.GTR, token.GEQ:
		ops := map[token.Token]string{token.LSS: "<", token.LEQ: "<=", token.GTR: ">", token.GEQ: ">="}
		if a.Sort == SInt || a.Sort == SReal {
			return cmp(ops[op], a, b)
		}
		if a.Sort == SBytes {
			lt := w.D.Fun("bytes_lt", []Sort{SBytes, SBytes}, SBool)
			switch op {
			case token.LSS:
				return App(SBool, lt, a, b)
			case token.GTR:
				return App(SBool, lt, b, a)
			case token.LEQ:
				return Not(App(SBool, lt, b, a))
			default:
				return Not(App(SBool, lt, a, b))
			}
		}
		return w.Fresh("cmp", SBool)
	case token.LAND:
		return And(a, b)
	case token.LOR:
		return Or(a, b)
	}
	if a.Sort == SBytes && op == token.ADD {
		return BCat(a, b)
	}
	if a.Sort == SReal {
		switch op {
		case token.ADD:
			return App(SReal, "+", a, b)
		case token.SUB:
			return App(SReal, "-", a, b)
		case token.MUL:
			return App(SReal, "*", a, b)
		case token.QUO:
			return App(SReal, "/", a, b)
		}
	}
	if a.Sort != SInt {
		w.Note("binop " + op.String() + " on sort " + string(a.Sort))
		return w.Fresh("binop", w.SortOf(rt))
	}
	switch op {
	case token.ADD:
		return ex.wrapInt(Add(a, b), rt)
	case token.SUB:
		return ex.wrapInt(Sub(a, b), rt)
	case token.MUL:
		return ex.wrapInt(Mul(a, b), rt)
	case token.QUO:
		ex.safety(st, "div-by-zero", pos, Not(Eq(b, IntLit(0))))
		if isUnsigned(rt) {
			return App(SInt, "div", a, b)
		}
		return App(SInt, "tdiv", a, b)
	case token.REM:
		ex.safety(st, "div-by-zero", pos, Not(Eq(b, IntLit(0))))
		if isUnsigned(rt) {
			return App(SInt, "mod", a, b)
		}
		return App(SInt, "trem", a, b)
	case token.SHL:
		if n, ok := b.isIntLit(); ok && n >= 0 && n < 64 {
			return ex.wrapInt(Mul(a, pow2(int(n))), rt)
		}
	case token.SHR:
		if n, ok := b.isIntLit(); ok && n >= 0 && n < 64 {
			return App(SInt, "div", a, pow2(int(n)))
		}
	case token.AND:
		if n, ok := b.isIntLit(); ok && n >= 0 && (n+1)&n == 0 {
			return App(SInt, "mod", a, IntLit(n+1))
		}
		if n, ok := a.isIntLit(); ok && n >= 0 && (n+1)&n == 0 {
			return App(SInt, "mod", b, IntLit(n+1))
		}
	}
	fn := w.D.Fun("bitop!"+op.String(), []Sort{SInt, SInt}, SInt)
	w.Note("bit operation " + op.String() + " uninterpreted")
	r := App(SInt, fn, a, b)
	return r
}

func (ex *Exec) convert(st *State, v Term, from, to types.Type) Term {
	w := ex.w
	fs, ts := w.SortOf(from), w.SortOf(to)
	switch {
	case fs == SInt && ts == SInt:
		return ex.convInt(v, from, to)
	case fs == SBytes && ts == SSlice: // string -> []byte (or []rune)
		if isByteSlice(to) {
			r := ex.allocRef(st, "bytes")
			bm := w.heapGet(st.heap, "BM", ArraySort(SRef, SBytes))
			w.heapSet(st.heap, "BM", Store(bm, r, v))
			return MkSlice(r, IntLit(0), BLen(v), BLen(v))
		}
	case fs == SSlice && ts == SBytes: // []byte -> string
		if isByteSlice(from) {
			return ex.byteContent(st.heap, v)
		}
	case fs == ts:
		return v
	case fs == SInt && ts == SReal:
		return App(SReal, "to_real", v)
	case fs == SReal && ts == SInt:
		// truncation toward zero
		return Ite(App(SBool, ">=", v, Term{"0.0", SReal}), App(SInt, "to_int", v), Sub(IntLit(0), App(SInt, "to_int", App(SReal, "-", v))))
	case fs == SInt && ts == SBytes:
		fn := w.D.Fun("rune_to_string", []Sort{SInt}, SBytes)
		return App(SBytes, fn, v)
	}
	w.Note(fmt.Sprintf("conversion %s -> %s havoced", from, to))
	return w.Fresh("conv", ts)
}

func (ex *Exec) makeInterface(st *State, v Term, from types.Type) Term {
	w := ex.w
	if v.Sort == SRef {
		if _, isIface := from.Underlying().(*types.Interface); !isIface {
			id := w.TypeID(from)
			st.assume(Implies(Not(Eq(v, TNil)), Eq(App(SInt, "dyntype", v), IntLit(int64(id)))))
		}
		return v
	}
	id := w.TypeID(from)
	box := w.D.Fun(fmt.Sprintf("box!%d!%s", id, sortTag(v.Sort)), []Sort{v.Sort}, SRef)
	unbox := w.D.Fun(fmt.Sprintf("unbox!%d!%s", id, sortTag(v.Sort)), []Sort{SRef}, v.Sort)
	r := App(SRef, box, v)
	st.assume(And(Not(Eq(r, TNil)), Eq(App(SInt, "dyntype", r), IntLit(int64(id))), Eq(App(v.Sort, unbox, r), v)))
	if sf, ok := w.CS.Specs["ifaceint"]; ok && v.Sort == SInt {
		// the integer carried by an interface value (used by the contract of fmt.Sprintf("%d", n))
		w.declareSpec(sf)
		st.assume(Eq(App(SInt, "ifaceint", r), v))
	}
	return r
}

func (ex *Exec) typeAssert(st *State, fr *Frame, x *ssa.TypeAssert) {
	w := ex.w
	v := ex.operand(st, fr, x.X)
	at := x.AssertedType
	var ok, val Term
	if _, isIface := at.Underlying().(*types.Interface); isIface {
		impl := w.D.Fun("implements!"+shortHash(typeKey(at))+"!"+sortTagName(at), []Sort{SInt}, SBool)
		ok = And(Not(Eq(v, TNil)), App(SBool, impl, App(SInt, "dyntype", v)))
		if types.IsInterface(x.X.Type()) && types.AssignableTo(x.X.Type(), at) {
			ok = Not(Eq(v, TNil))
		}
		val = v
	} else {
		id := w.TypeID(at)
		ok = And(Not(Eq(v, TNil)), Eq(App(SInt, "dyntype", v), IntLit(int64(id))))
		s := w.SortOf(at)
		if s == SRef {
			val = v
		} else {
			unbox := w.D.Fun(fmt.Sprintf("unbox!%d!%s", id, sortTag(s)), []Sort{SRef}, s)
			val = App(s, unbox, v)
		}
		if _, isTP := at.(*types.TypeParam); isTP {
			// generic T: opaque; assertion to T of a value stored as T
			okc := w.Fresh("assertT", SBool)
			ok = okc
			val = v
		}
	}
	if x.CommaOk {
		zero := w.Zero(at)
		if val.Sort != zero.Sort {
			zero = val
		}
		fr.tuples[x] = []Term{Ite(ok, val, zero), ok}
		return
	}
	if _, isTP := at.(*types.TypeParam); !isTP {
		ex.safety(st, "type-assert", x.Pos(), ok)
	}
	fr.regs[x] = val
}

func sortTagName(t types.Type) string {
	s := t.String()
	if len(s) > 24 {
		s = s[len(s)-24:]
	}
	out := make([]rune, 0, len(s))
	for _, c := range s {
		if (c >= 'a' && c <= 'z') || (c >= 'A' && c <= 'Z') || (c >= '0' && c <= '9') {
			out = append(out, c)
		}
	}
	return string(out)
}

func (ex *Exec) sliceOp(st *State, fr *Frame, x *ssa.Slice) {
	w := ex.w
	base := ex.operand(st, fr, x.X)
	var lo, hi, max Term
	if x.Low != nil {
		lo = ex.operand(st, fr, x.Low)
	} else {
		lo = IntLit(0)
	}
	if x.High != nil {
		hi = ex.operand(st, fr, x.High)
	}
	if x.Max != nil {
		max = ex.operand(st, fr, x.Max)
	}
	switch t := x.X.Type().Underlying().(type) {
	case *types.Basic: // string
		if hi.IsZero() {
			hi = BLen(base)
		}
		ex.safety(st, "slice-bounds", x.Pos(), And(Le(IntLit(0), lo), Le(lo, hi), Le(hi, BLen(base))))
		fr.regs[x] = BSlice(base, lo, hi)
	case *types.Slice:
		if hi.IsZero() {
			hi = SLen(base)
		}
		cp := SCap(base)
		if !max.IsZero() {
			ex.safety(st, "slice-bounds", x.Pos(), And(Le(IntLit(0), lo), Le(lo, hi), Le(hi, max), Le(max, SCap(base))))
			cp = max
		} else {
			ex.safety(st, "slice-bounds", x.Pos(), And(Le(IntLit(0), lo), Le(lo, hi), Le(hi, SCap(base))))
		}
		fr.regs[x] = MkSlice(SBase(base), Add(SOff(base), lo), Sub(hi, lo), Sub(cp, lo))
	case *types.Pointer: // *[N]T
		at := t.Elem().Underlying().(*types.Array)
		if hi.IsZero() {
			hi = IntLit(at.Len())
		}
		ex.safety(st, "nil-deref", x.Pos(), Not(Eq(base, TNil)))
		ex.safety(st, "slice-bounds", x.Pos(), And(Le(IntLit(0), lo), Le(lo, hi), Le(hi, IntLit(at.Len()))))
		if isByte(at.Elem()) {
			bm := w.heapGet(st.heap, "BM", ArraySort(SRef, SBytes))
			st.assume(Eq(BLen(Select(bm, ex.bmKey(base))), IntLit(at.Len())))
			fr.regs[x] = MkSlice(ex.bmKey(base), lo, Sub(hi, lo), Sub(IntLit(at.Len()), lo))
		} else {
			fr.regs[x] = MkSlice(base, lo, Sub(hi, lo), Sub(IntLit(at.Len()), lo))
		}
	default:
		panic("slice of " + x.X.Type().String())
	}
}

// bmKey returns the BM index under which the bytes pointed to by p live.
func (ex *Exec) bmKey(p Term) Term {
	if a := ex.w.addr[p.S]; a != nil && a.Kind == "cell" && a.Array == "BM" {
		return a.Base
	}
	return p
}

func (ex *Exec) panicReached(st *State, pos token.Pos, what string) {
	if ex.safetyOn() {
		ex.addOb(st, "safety", ex.fn.Name()+".safety.no-panic", what+" unreachable", pos, TFalse)
	}
}

// unwindPanic: a panicking path does not return normally; defers are not run
// in the model (recover is outside the subset).
func (ex *Exec) unwindPanic(st *State) ([]*State, bool) {
	return nil, true
}

func (ex *Exec) doReturn(st *State, fr *Frame, res []Term, pos token.Pos) ([]*State, bool) {
	if len(st.frames) > 1 {
		// inlined frame returns into its caller
		st.frames = st.frames[:len(st.frames)-1]
		caller := st.top()
		if fr.isDefer {
			// continue running the caller's defers
			return ex.runDefers(st, caller)
		}
		if fr.retTo != nil {
			if len(res) == 1 {
				caller.regs[fr.retTo] = res[0]
			} else if len(res) > 1 {
				caller.tuples[fr.retTo] = res
			}
		}
		return nil, false
	}
	ex.returns++
	if ex.returns <= 6 {
		// vacuity guard: the assumptions collected along a returning path must not be contradictory
		ex.obs = append(ex.obs, &Obligation{Name: ex.fn.Name() + ".path.cover", Kind: "cover", Func: ex.fn.String(), Pos: ex.w.posStr(pos),
			Src: "assumptions along a returning path are satisfiable", Assume: append([]Term(nil), st.pc...), Goal: TFalse, Expect: "sat", Props: ex.fc.Props, Trace: append([]string(nil), st.trace...), branchIdx: copyBranch(st.branch)})
	}
	ex.checkPost(st, fr, res, pos)
	return nil, true
}

func (ex *Exec) checkPost(st *State, fr *Frame, res []Term, pos token.Pos) {
	env := ex.contractEnv(st, ex.entry)
	env.frame = nil
	bindResults(env, ex.fn.Signature, nil, res)
	st.trace = append(st.trace, fmt.Sprintf("%s: return", ex.w.posStr(pos)))
	// ghost assignments performed at a normal return
	for _, g := range ex.fc.GhostSets {
		// G := expr or G() := expr for a ghost without arguments
		zname := ""
		if id, ok := g.Exprs[0].(*CIdent); ok {
			zname = id.Name
		} else if c0, ok := g.Exprs[0].(*CCall); ok && len(c0.Args) == 0 {
			zname = c0.Fn
		}
		if zname != "" {
			gd, ok := ex.w.CS.Ghosts[zname]
			if !ok || len(gd.Params) != 0 {
				ex.aborted = fmt.Sprintf("%s:%d: ghostset: unknown ghost %s", g.File, g.Line, zname)
				return
			}
			genv := *env
			genv.frame = fr
			val, err := genv.Eval(g.Expr)
			if err != nil {
				if strings.Contains(err.Error(), "unknown identifier") {
					continue
				}
				ex.aborted = fmt.Sprintf("%s:%d: ghostset: %v", g.File, g.Line, err)
				return
			}
			ex.w.heapSet(st.heap, "G_"+zname, val.T)
			continue
		}
		call, ok := g.Exprs[0].(*CCall)
		if !ok || len(call.Args) != 1 {
			ex.aborted = fmt.Sprintf("%s:%d: ghostset: left side must be G(x)", g.File, g.Line)
			return
		}
		gd, ok := ex.w.CS.Ghosts[call.Fn]
		if !ok || len(gd.Params) != 1 {
			ex.aborted = fmt.Sprintf("%s:%d: ghostset: unknown ghost %s", g.File, g.Line, call.Fn)
			return
		}
		idx, err := env.Eval(call.Args[0])
		if err != nil {
			ex.aborted = fmt.Sprintf("%s:%d: ghostset: %v", g.File, g.Line, err)
			return
		}
		// the right-hand side may name locals of the function (their values at this return);
		// on a return that precedes their declaration the ghost is left unchanged
		genv := *env
		genv.frame = fr
		val, err := genv.Eval(g.Expr)
		if err != nil {
			if strings.Contains(err.Error(), "unknown identifier") {
				continue
			}
			ex.aborted = fmt.Sprintf("%s:%d: ghostset: %v", g.File, g.Line, err)
			return
		}
		as := ArraySort(gd.Params[0], gd.Result)
		arr := ex.w.heapGet(st.heap, "G_"+call.Fn, as)
		ex.w.heapSet(st.heap, "G_"+call.Fn, Store(arr, env.coerceTo(idx, gd.Params[0]), val.T))
	}
	for i, c := range ex.fc.Ensures {
		cv, err := env.Eval(c.Expr)
		if err != nil {
			ex.aborted = fmt.Sprintf("%s:%d: ensures: %v", c.File, c.Line, err)
			return
		}
		ex.addOb(st, "post", ex.obName(fmt.Sprintf("ensures%d", i), c.Label), c.Src, pos, cv.T)
	}
	ex.checkFrame(st, pos)
	ex.checkLockPost(st, pos)
}

// zeroGhosts gives the ghosts declared with `zeroghost G "T" e` their value for a freshly allocated zero T.
func (ex *Exec) zeroGhosts(st *State, r Term, et types.Type) {
	var key string
	for _, name := range sortedKeys(ex.w.CS.Ghosts) {
		gd := ex.w.CS.Ghosts[name]
		if gd.Zero == nil {
			continue
		}
		if key == "" {
			key = typeKey(et)
		}
		e, ok := gd.Zero[key]
		if !ok {
			continue
		}
		env := &CEnv{ex: ex, st: st, vars: map[string]CV{}, old: st.heap, pkg: ex.fn.Pkg}
		v, err := env.Eval(e)
		if err != nil {
			ex.aborted = "zeroghost " + name + ": " + err.Error()
			return
		}
		as := ArraySort(gd.Params[0], gd.Result)
		arr := ex.w.heapGet(st.heap, "G_"+name, as)
		ex.w.heapSet(st.heap, "G_"+name, Store(arr, r, v.T))
	}
}

func bindResults(env *CEnv, sig *types.Signature, names []string, res []Term) {
	rs := sig.Results()
	for i := 0; i < rs.Len() && i < len(res); i++ {
		cv := CV{T: res[i], GoT: rs.At(i).Type()}
		env.vars[fmt.Sprintf("ret%d", i)] = cv
		if n := rs.At(i).Name(); n != "" && n != "_" {
			env.vars[n] = cv
		}
		if i < len(names) && names[i] != "" && names[i] != "_" {
			env.vars[names[i]] = cv
		}
		if rs.Len() == 1 {
			env.vars["result"] = cv
		}
		if i == rs.Len()-1 && isErrorType(rs.At(i).Type()) {
			if _, exists := env.vars["err"]; !exists || rs.At(i).Name() == "" {
				env.vars["err"] = cv
			}
		}
	}
	if rs.Len() > 1 {
		env.vars["result"] = CV{T: res[0], GoT: rs.At(0).Type()}
	}
}

func isErrorType(t types.Type) bool {
	return types.Identical(t, types.Universe.Lookup("error").Type())
}

func copyBranch(m map[int]bool) map[int]bool {
	out := make(map[int]bool, len(m))
	for k, v := range m {
		out[k] = v
	}
	return out
}
