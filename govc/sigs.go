package main

import (
	"encoding/json"
	"go/types"
	"os"
	"sort"

	"golang.org/x/tools/go/ssa"
)

// sigSnap records the parameter and local-variable names a function had when its
// contract was written. Contracts name parameters and (in loop invariants) locals;
// a later rename of one of them is a harmless edit, so an identifier that no longer
// exists is looked up by its position in this snapshot. The binding only decides
// which variable an invariant or clause talks about - every obligation is still
// generated from the current code and checked, so a wrong guess can only fail.
type sigSnap struct {
	Params []string `json:"params"`
	Locals []string `json:"locals"`
}

func loadSigs(path string) map[string]sigSnap {
	out := map[string]sigSnap{}
	b, err := os.ReadFile(path)
	if err != nil {
		return out
	}
	_ = json.Unmarshal(b, &out)
	return out
}

func saveSigs(path string, m map[string]sigSnap) error {
	old := loadSigs(path)
	for k, v := range m {
		old[k] = v
	}
	b, err := json.MarshalIndent(old, "", " ")
	if err != nil {
		return err
	}
	return os.WriteFile(path, b, 0o644)
}

// localNames: the named local variables of fn in declaration order.
func localNames(fn *ssa.Function) []string {
	type lv struct {
		name string
		pos  int
	}
	seen := map[types.Object]bool{}
	params := map[string]bool{}
	for _, p := range fn.Params {
		params[p.Name()] = true
	}
	var ls []lv
	for _, b := range fn.Blocks {
		for _, in := range b.Instrs {
			d, ok := in.(*ssa.DebugRef)
			if !ok {
				continue
			}
			obj := d.Object()
			v, isVar := obj.(*types.Var)
			if !isVar || seen[obj] || v.IsField() || params[v.Name()] || v.Name() == "_" {
				continue
			}
			if v.Parent() == nil || v.Pkg() == nil || v.Parent() == v.Pkg().Scope() {
				continue // package-level variable
			}
			seen[obj] = true
			ls = append(ls, lv{v.Name(), int(v.Pos())})
		}
	}
	sort.SliceStable(ls, func(i, j int) bool { return ls[i].pos < ls[j].pos })
	out := make([]string, len(ls))
	for i, l := range ls {
		out[i] = l.name
	}
	return out
}

// aliasesFor maps names of the snapshot that no longer exist to the current name at the same position.
func aliasesFor(snap sigSnap, fn *ssa.Function) (params map[string]int, locals map[string]string) {
	params, locals = map[string]int{}, map[string]string{}
	cur := map[string]bool{}
	for _, p := range fn.Params {
		cur[p.Name()] = true
	}
	if len(snap.Params) == len(fn.Params) {
		for i, old := range snap.Params {
			if old != fn.Params[i].Name() && !cur[old] {
				params[old] = i
			}
		}
	}
	now := localNames(fn)
	if len(now) == len(snap.Locals) {
		have := map[string]bool{}
		for _, n := range now {
			have[n] = true
		}
		for i, old := range snap.Locals {
			if old != now[i] && !have[old] {
				locals[old] = now[i]
			}
		}
	}
	return
}
