package main

import (
	"bytes"
	"context"
	"fmt"
	"os"
	"os/exec"
	"path/filepath"
	"sort"
	"strings"
	"sync"
	"time"
)

const smtDefs = `
(define-fun tdiv ((x Int) (y Int)) Int (ite (>= x 0) (div x y) (- (div (- x) y))))
(define-fun trem ((x Int) (y Int)) Int (- x (* y (tdiv x y))))
`

// symbolsOf collects the symbols occurring in SMT text.
func symbolsOf(text string, into map[string]bool) {
	i := 0
	for i < len(text) {
		c := text[i]
		switch {
		case c == '|':
			j := strings.IndexByte(text[i+1:], '|')
			if j < 0 {
				return
			}
			into[text[i:i+j+2]] = true
			i += j + 2
		case c == '(' || c == ')' || c == ' ' || c == '\n' || c == '\t':
			i++
		default:
			j := i
			for j < len(text) && !strings.ContainsRune("() \n\t|", rune(text[j])) {
				j++
			}
			into[text[i:j]] = true
			i = j
		}
	}
}

// declSymbol extracts the declared symbol from a declaration text.
func declSymbol(decl string) string {
	// (declare-fun SYM ...
	rest := strings.TrimPrefix(decl, "(declare-fun ")
	if strings.HasPrefix(rest, "|") {
		j := strings.IndexByte(rest[1:], '|')
		return rest[:j+2]
	}
	j := strings.IndexAny(rest, " ")
	return rest[:j]
}

// BuildScript renders the SMT-LIB script of an obligation.
func (w *World) BuildScript(ob *Obligation, forCVC5 bool) string {
	var body strings.Builder
	for _, a := range ob.Assume {
		body.WriteString("(assert ")
		body.WriteString(a.S)
		body.WriteString(")\n")
	}
	if ob.Expect == "sat" {
		// cover: only the assumptions
	} else {
		body.WriteString("(assert (not ")
		body.WriteString(ob.Goal.S)
		body.WriteString("))\n")
	}
	used := map[string]bool{}
	symbolsOf(body.String(), used)

	// axioms: closure over symbols
	var axText []string
	included := map[string]bool{}
	all := append(append([]smtAxiom(nil), bytesAxioms...), w.userAx...)
	for _, u := range ob.Uses {
		for _, la := range w.lemmaAx {
			if la.name == "lemma:"+u {
				la.syms = nil // always included
				all = append(all, la)
			}
		}
	}
	for changed := ob.Expect != "sat" || ob.Kind == "canary"; changed; {
		changed = false
		for _, ax := range all {
			if included[ax.name] {
				continue
			}
			hit := false
			if len(ax.syms) == 0 || ob.Kind == "canary" {
				hit = true
			}
			if ob.Kind == "canary" {
			} else if strings.HasPrefix(ax.name, "bytes:") || isBytesAxiom(ax.name) {
				// builtin: all trigger symbols must be present
				hit = true
				for _, s := range ax.syms {
					if !used[s] {
						hit = false
					}
				}
			} else {
				for _, s := range ax.syms {
					if used[s] {
						hit = true
					}
				}
			}
			if hit {
				included[ax.name] = true
				axText = append(axText, "; axiom "+ax.name+"\n"+ax.text)
				symbolsOf(ax.text, used)
				changed = true
			}
		}
	}

	var sb strings.Builder
	if forCVC5 {
		sb.WriteString("(set-option :produce-models true)\n(set-logic ALL)\n")
	} else {
		sb.WriteString("(set-option :produce-models true)\n")
	}
	sb.WriteString(prelude)
	sb.WriteString(smtDefs)
	for _, d := range w.dtDecl {
		// include a datatype when its sort symbol is used
		sym := strings.Fields(strings.TrimPrefix(d, "(declare-datatype "))[0]
		if strings.HasPrefix(sym, "|") {
			sym = d[len("(declare-datatype "):]
			sym = sym[:strings.IndexByte(sym[1:], '|')+2]
		}
		_ = sym
		sb.WriteString(d)
		sb.WriteByte('\n')
	}
	for _, n := range w.D.order {
		txt := w.D.text[n]
		if used[declSymbol(txt)] {
			sb.WriteString(txt)
			sb.WriteByte('\n')
		}
	}
	for _, a := range axText {
		sb.WriteString(a)
		sb.WriteByte('\n')
	}
	// field-address constructors are injective and have pairwise disjoint ranges;
	// a field address is never nil and never an object allocated by `new`
	for _, sym := range sortedKeys(w.fldTagsAsAny()) {
		if !used[sym] {
			continue
		}
		fmt.Fprintf(&sb, "(assert (forall ((b Ref)) (! (and (= (addrtag (%s b)) %d) (= (addrbase (%s b)) b) (= (born (%s b)) (born b))) :pattern ((%s b)))))\n", sym, w.fldTags[sym], sym, sym, sym)
	}
	// an address (tag != 0) is a field or element of its base object and is as old as that object
	if used["addrbase"] && used["born"] {
		sb.WriteString("(assert (forall ((x Ref)) (! (=> (not (= (addrtag x) 0)) (= (born x) (born (addrbase x)))) :pattern ((addrbase x)))))\n")
	}
	// element addresses: injective in (base, index), disjoint from field addresses and from allocated objects
	if used["elemref"] {
		sb.WriteString("(declare-fun elemidx (Ref) Int)\n(assert (forall ((b Ref) (i Int)) (! (and (= (addrtag (elemref b i)) (- 1)) (= (addrbase (elemref b i)) b) (= (elemidx (elemref b i)) i) (= (born (elemref b i)) (born b))) :pattern ((elemref b i)))))\n")
	}
	if used["aelemref"] {
		sb.WriteString("(declare-fun aelemidx (Ref) Int)\n(assert (forall ((b Ref) (i Int)) (! (and (= (addrtag (aelemref b i)) (- 2)) (= (addrbase (aelemref b i)) b) (= (aelemidx (aelemref b i)) i) (= (born (aelemref b i)) (born b))) :pattern ((aelemref b i)))))\n")
	}
	// package-level variables: their addresses are non-nil, pairwise distinct, exist from the start and are not
	// field or element addresses of anything
	var globs []string
	for s, a := range w.addr {
		if a.Kind == "global" && used[s] {
			globs = append(globs, s)
		}
	}
	sort.Strings(globs)
	for _, g := range globs {
		fmt.Fprintf(&sb, "(assert (and (not (= %s nil)) (<= (born %s) 1) (= (addrtag %s) 0)))\n", g, g, g)
	}
	if len(globs) > 1 {
		fmt.Fprintf(&sb, "(assert (distinct %s))\n", strings.Join(globs, " "))
	}
	for _, f := range w.strLitFacts(used) {
		sb.WriteString(f)
		sb.WriteByte('\n')
	}
	// read-only error globals are pairwise distinct and non-nil
	var errs []string
	for _, g := range w.roErrGlobals {
		if used[g] {
			errs = append(errs, g)
		}
	}
	if len(errs) > 0 {
		sb.WriteString("(assert (distinct nil " + strings.Join(errs, " ") + "))\n")
	}
	sb.WriteString(ob.extraDecls)
	sb.WriteString(body.String())
	sb.WriteString("(check-sat)\n")
	return sb.String()
}

func isBytesAxiom(name string) bool {
	for _, a := range bytesAxioms {
		if a.name == name {
			return true
		}
	}
	return false
}

type solverSpec struct {
	name string
	cmd  func(file string, timeout int) []string
	cvc5 bool
}

var solvers = []solverSpec{
	{"z3-5.1.0", func(f string, t int) []string { return []string{"z3-new", fmt.Sprintf("-T:%d", t), f} }, false},
	{"z3-4.8.12", func(f string, t int) []string { return []string{"z3", fmt.Sprintf("-T:%d", t), f} }, false},
	{"cvc5-1.0", func(f string, t int) []string {
		return []string{"cvc5", fmt.Sprintf("--tlimit=%d", t*1000), "--incremental", f}
	}, true},
}

type solveOut struct {
	solver string
	answer string // sat, unsat, unknown, timeout, error
	output string
	secs   float64
}

func runSolver(sp solverSpec, script string, timeout int, withModel bool, dir string, tag string) solveOut {
	return runSolverCtx(context.Background(), sp, script, timeout, withModel, dir, tag)
}

func runSolverCtx(parent context.Context, sp solverSpec, script string, timeout int, withModel bool, dir string, tag string) solveOut {
	f := filepath.Join(dir, fmt.Sprintf("%s.%s.smt2", tag, sp.name))
	text := script
	if withModel {
		text += "(get-model)\n"
	}
	if err := os.WriteFile(f, []byte(text), 0o644); err != nil {
		return solveOut{sp.name, "error", err.Error(), 0}
	}
	defer os.Remove(f)
	argv := sp.cmd(f, timeout)
	ctx, cancel := context.WithTimeout(parent, time.Duration(timeout+5)*time.Second)
	defer cancel()
	t0 := time.Now()
	cmd := exec.CommandContext(ctx, argv[0], argv[1:]...)
	var out bytes.Buffer
	cmd.Stdout = &out
	cmd.Stderr = &out
	_ = cmd.Run()
	secs := time.Since(t0).Seconds()
	o := out.String()
	if parent.Err() != nil {
		return solveOut{sp.name, "cancelled", "", secs}
	}
	first := ""
	for _, l := range strings.Split(o, "\n") {
		l = strings.TrimSpace(l)
		if l == "" || strings.HasPrefix(l, "WARNING") || strings.HasPrefix(l, ";") || strings.Contains(l, "set-logic") || strings.Contains(l, "No set-logic") || strings.Contains(l, "cvc5 will make") || strings.Contains(l, "Consider setting") {
			continue
		}
		first = l
		break
	}
	ans := "error"
	switch first {
	case "sat", "unsat", "unknown", "timeout":
		ans = first
	default:
		if ctx.Err() != nil || strings.Contains(o, "timeout") || strings.Contains(o, "interrupted") {
			ans = "timeout"
		}
	}
	return solveOut{sp.name, ans, o, secs}
}

type SolveConfig struct {
	Tier     string
	Timeout  int
	Dir      string
	AllAgree bool
	NoRetry  bool
	Seed     int
}

// Solve decides one obligation.
func (w *World) Solve(ob *Obligation, cfg *SolveConfig, idx int) {
	if ob.Result != "" {
		return
	}
	script := w.BuildScript(ob, false)
	if d := os.Getenv("GOVC_DUMP"); d != "" && strings.Contains(ob.Name, d) {
		os.WriteFile(fmt.Sprintf("/tmp/govc_dump_%s_%d.smt2", strings.ReplaceAll(ob.Name, "/", "_"), idx), []byte(script), 0o644)
	}
	scriptC := ""
	tag := fmt.Sprintf("ob%05d", idx)
	want := ob.Expect // "unsat" or "sat"
	var outs []solveOut
	decide := func(o solveOut) bool {
		outs = append(outs, o)
		return o.answer == "sat" || o.answer == "unsat"
	}
	t0 := time.Now()
	tmo := cfg.Timeout
	if ob.Expect == "sat" {
		tmo = 3
	}
	if ob.Expect != "sat" && tmo > 2 {
		tmo = 2 // stage 1: a short attempt with z3-new; stage 2 races all three
	}
	first := runSolver(solvers[0], script, tmo, true, cfg.Dir, tag)
	decided := decide(first)
	if (!decided || cfg.AllAgree) && ob.Expect != "sat" {
		// race the other two
		if scriptC == "" {
			scriptC = w.BuildScript(ob, true)
		}
		rctx, rcancel := context.WithCancel(context.Background())
		ch := make(chan solveOut, 3)
		n := 2
		go func() { ch <- runSolverCtx(rctx, solvers[1], script, cfg.Timeout, false, cfg.Dir, tag) }()
		go func() { ch <- runSolverCtx(rctx, solvers[2], scriptC, cfg.Timeout, false, cfg.Dir, tag) }()
		if !decided {
			n = 3
			outs = outs[:0]
			go func() { ch <- runSolverCtx(rctx, solvers[0], script, cfg.Timeout, true, cfg.Dir, tag+"b") }()
		}
		for i := 0; i < n; i++ {
			o := <-ch
			if o.answer == "cancelled" {
				continue
			}
			if decide(o) && !cfg.AllAgree {
				rcancel()
			}
		}
		rcancel()
		// stage 3: nobody answered within the timeout. A loaded machine must not turn a
		// dischargeable obligation into an alarm: one more race with four times the budget.
		stillOpen := true
		for _, o := range outs {
			if o.answer == "sat" || o.answer == "unsat" {
				stillOpen = false
			}
		}
		if stillOpen && !cfg.AllAgree && !cfg.NoRetry {
			rctx3, rcancel3 := context.WithCancel(context.Background())
			ch3 := make(chan solveOut, 3)
			long := cfg.Timeout * 4
			go func() { ch3 <- runSolverCtx(rctx3, solvers[0], script, long, true, cfg.Dir, tag+"c") }()
			go func() { ch3 <- runSolverCtx(rctx3, solvers[1], script, long, false, cfg.Dir, tag+"c") }()
			go func() { ch3 <- runSolverCtx(rctx3, solvers[2], scriptC, long, false, cfg.Dir, tag+"c") }()
			for i := 0; i < 3; i++ {
				o := <-ch3
				if o.answer == "cancelled" {
					continue
				}
				if decide(o) {
					rcancel3()
				}
			}
			rcancel3()
		}
	}
	ob.Time = time.Since(t0).Seconds()
	var sat, unsat []string
	var buf strings.Builder
	for _, o := range outs {
		switch o.answer {
		case "sat":
			sat = append(sat, o.solver)
		case "unsat":
			unsat = append(unsat, o.solver)
		}
		fmt.Fprintf(&buf, "[%s %.2fs] %s\n", o.solver, o.secs, strings.TrimSpace(firstLines(o.output, 3)))
		if o.answer == "sat" && ob.ModelOut == "" {
			ob.ModelOut = o.output
		}
		if o.answer == "error" {
			ob.Output += fmt.Sprintf("[%s error] %s\n", o.solver, firstLines(o.output, 6))
		}
	}
	ob.Output += buf.String()
	switch {
	case len(sat) > 0 && len(unsat) > 0:
		ob.Result = "undecided"
		ob.Solver = "disagreement: sat by " + strings.Join(sat, ",") + ", unsat by " + strings.Join(unsat, ",")
	case want == "unsat" && len(unsat) > 0:
		ob.Result = "discharged"
		ob.Solver = strings.Join(unsat, ",")
	case want == "unsat" && len(sat) > 0:
		ob.Result = "refuted"
		ob.Solver = strings.Join(sat, ",")
	case want == "sat" && len(sat) > 0:
		ob.Result = "discharged"
		ob.Solver = strings.Join(sat, ",")
	case want == "sat" && len(unsat) > 0:
		ob.Result = "refuted" // vacuous assumptions
		ob.Solver = strings.Join(unsat, ",")
		if ob.branchIdx != nil {
			// which assumption makes the path unsatisfiable? a branch condition: an
			// ordinary infeasible path; anything else: a vacuity problem of the model
			lo, hi := 0, len(ob.Assume) // invariant: prefix[:lo] not unsat, prefix[:hi] unsat
			full := ob.Assume
			inconclusive := false
			for hi-lo > 1 {
				mid := (lo + hi) / 2
				ob.Assume = full[:mid]
				scr := w.BuildScript(ob, false)
				r := runSolver(solvers[0], scr, 3, false, cfg.Dir, tag+"v")
				for k, sv := range solvers {
					if r.answer == "sat" || r.answer == "unsat" || k >= 2 {
						break
					}
					// a timeout here would shift the blame to a later assumption: ask again, longer
					r = runSolver(sv, scr, 10, false, cfg.Dir, tag+"v")
				}
				switch r.answer {
				case "unsat":
					hi = mid
				case "sat":
					lo = mid
				default:
					inconclusive = true
					lo = mid
				}
			}
			ob.Assume = full
			culprit := hi - 1
			if inconclusive && !(culprit >= 0 && ob.branchIdx[culprit]) {
				// the search could not be decided: no verdict on vacuity, and no alarm
				ob.Result = "discharged"
				ob.Solver = "path cover inconclusive (blame search timed out)"
				w.Note("vacuity: path cover of " + ob.Func + " inconclusive (blame search timed out)")
			} else if culprit >= 0 && ob.branchIdx[culprit] {
				ob.Result = "discharged"
				ob.Solver = "infeasible path (branch condition)"
				// recorded for the reader: a branch that the contracts applied before it make dead is
				// either a defensive test or a contradiction between contracts (8.5 of DESIGN.md)
				c := full[culprit].S
				if len(c) > 140 {
					c = c[:140] + "..."
				}
				w.Note("dead branch: a returning path of " + ob.Func + " (" + ob.Pos + ") is infeasible from the branch condition " + c)
			} else if culprit >= 0 {
				ob.Output += fmt.Sprintf("assumption #%d makes the returning path unsatisfiable (not a branch condition): %s\n", culprit, firstLines(full[culprit].S, 3))
				if len(full[culprit].S) > 600 {
					ob.Output = ob.Output[:len(ob.Output)-1] + "\n"
				}
			}
		}
	default:
		ob.Result = "undecided"
		ob.Solver = "none"
	}
	if ob.Result != "discharged" && cfg.Dir != "" {
		ob.scriptText = script
	}
}

func firstLines(s string, n int) string {
	lines := strings.Split(s, "\n")
	if len(lines) > n {
		lines = lines[:n]
	}
	return strings.Join(lines, "\n")
}

// SolveAll runs the solvers over all obligations with a worker pool.
func (w *World) SolveAll(obs []*Obligation, cfg *SolveConfig, workers int) {
	var wg sync.WaitGroup
	var mu sync.Mutex
	failed := map[string]bool{}
	ch := make(chan int)
	for i := 0; i < workers; i++ {
		wg.Add(1)
		go func() {
			defer wg.Done()
			for idx := range ch {
				ob := obs[idx]
				// an obligation that already failed on another path is not re-attempted
				// (bounds the time of a failing run; the violation is reported once per name)
				mu.Lock()
				skip := failed[ob.Name] && ob.Result == ""
				tooMany := len(failed) >= 12 && ob.Result == "" && ob.Kind != "cover" && ob.Kind != "canary"
				mu.Unlock()
				if skip || tooMany {
					ob.Result = "undecided"
					ob.Solver = "not attempted"
					if skip {
						ob.Output = "same obligation already failed on another path"
					} else {
						ob.Output = "more than 12 distinct obligations already failed; remaining obligations not attempted"
					}
					continue
				}
				w.Solve(ob, cfg, idx)
				if ob.Result != "discharged" && ob.Kind != "cover" && ob.Kind != "canary" {
					mu.Lock()
					failed[ob.Name] = true
					mu.Unlock()
				}
			}
		}()
	}
	for i := range obs {
		ch <- i
	}
	close(ch)
	wg.Wait()
}
