package main

import (
	"fmt"
	"go/token"
	"go/types"
	"sort"
	"strings"

	"golang.org/x/tools/go/ssa"
)

// Lock-order discipline (DESIGN.md 2.5): every acquisition of lock class l
// while holding lock class h contributes the constraint level(h) < level(l);
// the obligation is that all constraints of the run are simultaneously
// satisfiable (no inversion). Lock classes are field based ("S.mu"), merged
// when a lock pointer is stored into a field or handed to notify.New.

type lockEdge struct {
	from, to string
	site     string
	fn       string
}

type lockOrder struct {
	parent map[string]string
	edges  []lockEdge
	seen   map[string]bool
	acq    map[*ssa.Function]map[string]bool
	merged map[*ssa.Function]bool
}

func newLockOrder() *lockOrder {
	return &lockOrder{parent: map[string]string{}, seen: map[string]bool{}, acq: map[*ssa.Function]map[string]bool{}, merged: map[*ssa.Function]bool{}}
}

func (lo *lockOrder) find(c string) string {
	for {
		p, ok := lo.parent[c]
		if !ok || p == c {
			return c
		}
		c = p
	}
}

func (lo *lockOrder) union(a, b string) {
	ra, rb := lo.find(a), lo.find(b)
	if ra == rb {
		return
	}
	if rb < ra {
		ra, rb = rb, ra
	}
	lo.parent[rb] = ra
}

func typeShort(t types.Type) string {
	t = deref(t)
	if n, ok := types.Unalias(t).(*types.Named); ok {
		return n.Obj().Name()
	}
	return "anon"
}

// lockClass names the lock a Lock/Unlock call operates on.
func lockClass(v ssa.Value, fn *ssa.Function) string {
	switch x := v.(type) {
	case *ssa.FieldAddr:
		st := deref(x.X.Type())
		if s, ok := st.Underlying().(*types.Struct); ok {
			return typeShort(st) + "." + s.Field(x.Field).Name()
		}
	case *ssa.UnOp:
		if x.Op == token.MUL {
			return lockClass(x.X, fn)
		}
	case *ssa.MakeInterface:
		return lockClass(x.X, fn)
	case *ssa.ChangeInterface:
		return lockClass(x.X, fn)
	case *ssa.ChangeType:
		return lockClass(x.X, fn)
	case *ssa.Alloc:
		return "local:" + fn.Name() + "." + x.Comment
	case *ssa.Parameter:
		return "param:" + fn.Name() + "." + x.Name()
	case *ssa.Phi:
		if len(x.Edges) > 0 {
			return lockClass(x.Edges[0], fn)
		}
	case *ssa.Extract, *ssa.Call:
		return "value:" + fn.Name() + "." + v.Name()
	}
	return "unknown:" + fn.Name() + "." + v.Name()
}

// lockOp classifies a call as a lock operation: +1 acquire, -1 release, 0 other.
func lockOp(c *ssa.CallCommon) (op int, mutex ssa.Value) {
	name := ""
	if c.IsInvoke() {
		name = c.Method.Name()
		recv := types.TypeString(c.Value.Type(), nil)
		if recv != "sync.Locker" {
			return 0, nil
		}
		mutex = c.Value
	} else {
		fn := c.StaticCallee()
		if fn == nil || fn.Pkg == nil || fn.Pkg.Pkg.Path() != "sync" || len(c.Args) == 0 {
			return 0, nil
		}
		rt := types.TypeString(deref(c.Args[0].Type()), nil)
		if rt != "sync.Mutex" && rt != "sync.RWMutex" {
			return 0, nil
		}
		name = fn.Name()
		mutex = c.Args[0]
	}
	switch name {
	case "Lock", "RLock":
		return 1, mutex
	case "Unlock", "RUnlock":
		return -1, mutex
	}
	return 0, nil
}

// scanAliases merges lock classes: stores of lock pointers into fields and
// lockers handed to constructors that keep them (notify.New).
func (lo *lockOrder) scanAliases(fn *ssa.Function) {
	if lo.merged[fn] {
		return
	}
	lo.merged[fn] = true
	isLockType := func(t types.Type) bool {
		s := types.TypeString(t, nil)
		return s == "*sync.Mutex" || s == "*sync.RWMutex" || s == "sync.Locker"
	}
	for _, b := range fn.Blocks {
		for _, in := range b.Instrs {
			switch x := in.(type) {
			case *ssa.Store:
				if isLockType(x.Val.Type()) {
					lo.union(lockClass(x.Addr, fn), lockClass(x.Val, fn))
				}
			case ssa.CallInstruction:
				c := x.Common()
				if sc := c.StaticCallee(); sc != nil && sc.Pkg != nil && strings.HasSuffix(sc.Pkg.Pkg.Path(), "internal/notify") && sc.Name() == "New" && len(c.Args) == 1 {
					lo.union("Notify.L", lockClass(c.Args[0], fn))
				}
			}
		}
	}
	for _, a := range fn.AnonFuncs {
		lo.scanAliases(a)
	}
}

// acquires returns the lock classes fn may acquire, transitively through
// statically resolved calls to functions with bodies.
func (lo *lockOrder) acquires(fn *ssa.Function, depth int) map[string]bool {
	if r, ok := lo.acq[fn]; ok {
		return r
	}
	res := map[string]bool{}
	lo.acq[fn] = res // cycle guard
	if depth > 8 {
		return res
	}
	lo.scanAliases(fn)
	for _, b := range fn.Blocks {
		for _, in := range b.Instrs {
			ci, ok := in.(ssa.CallInstruction)
			if !ok {
				continue
			}
			if _, isGo := in.(*ssa.Go); isGo {
				continue
			}
			c := ci.Common()
			if op, mu := lockOp(c); op > 0 {
				res[lockClass(mu, fn)] = true
				continue
			}
			if sc := c.StaticCallee(); sc != nil && len(sc.Blocks) > 0 {
				for k := range lo.acquires(sc, depth+1) {
					res[k] = true
				}
			}
		}
	}
	return res
}

// onCall is invoked by the executor for every call on a path.
func (ex *Exec) lockOrderCall(st *State, fr *Frame, c *ssa.CallCommon, pos token.Pos) {
	lo := ex.w.lockOrder
	if lo == nil {
		return
	}
	lo.scanAliases(fr.fn)
	site := ex.w.posStr(pos)
	if op, mu := lockOp(c); op != 0 {
		cls := lockClass(mu, fr.fn)
		if op > 0 {
			for _, h := range st.held {
				lo.addEdge(h, cls, site, ex.fn.String())
			}
			st.held = append(st.held, cls)
		} else {
			for i := len(st.held) - 1; i >= 0; i-- {
				if lo.find(st.held[i]) == lo.find(cls) {
					st.held = append(append([]string(nil), st.held[:i]...), st.held[i+1:]...)
					break
				}
			}
		}
		return
	}
	if len(st.held) == 0 {
		return
	}
	if sc := c.StaticCallee(); sc != nil && len(sc.Blocks) > 0 && sc.Parent() == nil {
		for cls := range lo.acquires(sc, 0) {
			for _, h := range st.held {
				lo.addEdge(h, cls, site+" (via "+sc.Name()+")", ex.fn.String())
			}
		}
	}
}

func (lo *lockOrder) addEdge(from, to, site, fn string) {
	key := from + "->" + to + "@" + site
	if lo.seen[key] {
		return
	}
	lo.seen[key] = true
	lo.edges = append(lo.edges, lockEdge{from, to, site, fn})
}

// obligation renders the satisfiability query: one integer level per class.
func (lo *lockOrder) obligation(prop string) *Obligation {
	if len(lo.edges) == 0 {
		return nil
	}
	classes := map[string]bool{}
	var asserts []Term
	var desc []string
	sort.Slice(lo.edges, func(i, j int) bool { return lo.edges[i].site < lo.edges[j].site })
	for _, e := range lo.edges {
		f, t := lo.find(e.from), lo.find(e.to)
		if f == t {
			continue // re-acquisition of the same class: covered by the lock.not-held preconditions
		}
		classes[f], classes[t] = true, true
		asserts = append(asserts, Term{fmt.Sprintf("(< %s %s)", smtSym("lvl!"+f), smtSym("lvl!"+t)), SBool})
		desc = append(desc, fmt.Sprintf("%s: holding %s, acquires %s [%s]", e.site, f, t, e.fn))
	}
	if len(asserts) == 0 {
		return nil
	}
	ob := &Obligation{Name: prop + ".lockorder", Kind: "lockorder", Func: "lock acquisition order", Src: "the lock-order constraints of all verified functions are satisfiable (no inversion)",
		Assume: asserts, Goal: TFalse, Expect: "sat", Trace: desc}
	ob.extraDecls = ""
	for _, c := range sortedKeys(classes) {
		ob.extraDecls += fmt.Sprintf("(declare-fun %s () Int)\n", smtSym("lvl!"+c))
	}
	return ob
}
