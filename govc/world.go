package main

import (
	"crypto/sha1"
	"fmt"
	"go/types"
	"sort"
	"strings"

	"golang.org/x/tools/go/packages"
	"golang.org/x/tools/go/ssa"
)

const prelude = `
(declare-sort Ref 0)
(declare-sort Bytes 0)
(declare-fun nil () Ref)
(declare-datatype Slice ((mkslice (sbase Ref) (soff Int) (slen Int) (scap Int))))
(declare-fun blen (Bytes) Int)
(declare-fun bat (Bytes Int) Int)
(declare-fun bslice (Bytes Int Int) Bytes)
(declare-fun bcat (Bytes Bytes) Bytes)
(declare-fun bupd (Bytes Int Bytes) Bytes)
(declare-fun bset (Bytes Int Int) Bytes)
(declare-fun bzero (Int) Bytes)
(declare-fun bempty () Bytes)
(declare-fun dyntype (Ref) Int)
(declare-fun eidx (Int Int) Int)
(declare-fun addrtag (Ref) Int)
(declare-fun addrbase (Ref) Ref)
(assert (= (addrtag nil) 0))
(declare-sort Time 0)
(declare-fun zero!Time () Time)
(declare-fun born (Ref) Int)
(assert (= (born nil) 0))
(declare-fun maplen ((Array Int Bool)) Int)
`

// Bytes axioms: name -> (symbols that trigger inclusion, text)
type smtAxiom struct {
	name string
	syms []string
	text string
}

// EIdx is off+i, kept behind an uninterpreted symbol so that quantifier
// patterns over element accesses are not destroyed by arithmetic normalisation.
func EIdx(off, i Term) Term {
	if off.S == "0" {
		return i
	}
	if _, ok := i.isIntLit(); ok {
		if _, ok2 := off.isIntLit(); ok2 {
			return Add(off, i)
		}
	}
	return App(SInt, "eidx", off, i)
}

var bytesAxioms = []smtAxiom{
	{"eidx_def", []string{"eidx"}, `(assert (forall ((o Int) (i Int)) (! (= (eidx o i) (+ o i)) :pattern ((eidx o i)))))`},
	{"blen_nonneg", []string{"blen"}, `(assert (forall ((b Bytes)) (! (>= (blen b) 0) :pattern ((blen b)))))`},
	{"bempty_len", []string{"bempty"}, `(assert (= (blen bempty) 0))`},
	{"blen0_empty", []string{"bempty"}, `(assert (forall ((b Bytes)) (! (=> (= (blen b) 0) (= b bempty)) :pattern ((blen b)))))`},
	{"bat_range", []string{"bat"}, `(assert (forall ((b Bytes) (i Int)) (! (and (<= 0 (bat b i)) (< (bat b i) 256)) :pattern ((bat b i)))))`},
	{"bzero_len", []string{"bzero"}, `(assert (forall ((n Int)) (! (=> (>= n 0) (= (blen (bzero n)) n)) :pattern ((bzero n)))))`},
	{"bzero_at", []string{"bzero", "bat"}, `(assert (forall ((n Int) (i Int)) (! (=> (and (<= 0 i) (< i n)) (= (bat (bzero n) i) 0)) :pattern ((bat (bzero n) i)))))`},
	{"bslice_len", []string{"bslice"}, `(assert (forall ((b Bytes) (lo Int) (hi Int)) (! (=> (and (<= 0 lo) (<= lo hi) (<= hi (blen b))) (= (blen (bslice b lo hi)) (- hi lo))) :pattern ((bslice b lo hi)))))`},
	{"bslice_full", []string{"bslice"}, `(assert (forall ((b Bytes) (lo Int) (hi Int)) (! (=> (and (= lo 0) (= hi (blen b))) (= (bslice b lo hi) b)) :pattern ((bslice b lo hi)))))`},
	{"bslice_at", []string{"bslice", "bat"}, `(assert (forall ((b Bytes) (lo Int) (hi Int) (i Int)) (! (=> (and (<= 0 lo) (<= lo hi) (<= hi (blen b)) (<= 0 i) (< i (- hi lo))) (= (bat (bslice b lo hi) i) (bat b (+ lo i)))) :pattern ((bat (bslice b lo hi) i)))))`},
	{"bslice_slice", []string{"bslice"}, `(assert (forall ((b Bytes) (a Int) (c Int) (d Int) (e Int)) (! (=> (and (<= 0 a) (<= a c) (<= c (blen b)) (<= 0 d) (<= d e) (<= e (- c a))) (= (bslice (bslice b a c) d e) (bslice b (+ a d) (+ a e)))) :pattern ((bslice (bslice b a c) d e)))))`},
	{"bcat_len", []string{"bcat"}, `(assert (forall ((a Bytes) (b Bytes)) (! (= (blen (bcat a b)) (+ (blen a) (blen b))) :pattern ((bcat a b)))))`},
	{"bcat_empty", []string{"bcat"}, `(assert (forall ((a Bytes) (b Bytes)) (! (and (=> (= (blen b) 0) (= (bcat a b) a)) (=> (= (blen a) 0) (= (bcat a b) b))) :pattern ((bcat a b)))))`},
	{"bcat_slice", []string{"bcat", "bslice"}, `(assert (forall ((a Bytes) (b Bytes) (lo Int) (hi Int)) (! (and (=> (and (<= 0 lo) (<= lo hi) (<= hi (blen a))) (= (bslice (bcat a b) lo hi) (bslice a lo hi))) (=> (and (<= (blen a) lo) (<= lo hi) (<= hi (+ (blen a) (blen b)))) (= (bslice (bcat a b) lo hi) (bslice b (- lo (blen a)) (- hi (blen a)))))) :pattern ((bslice (bcat a b) lo hi)))))`},
	{"bcat_at", []string{"bcat", "bat"}, `(assert (forall ((a Bytes) (b Bytes) (i Int)) (! (=> (and (<= 0 i) (< i (+ (blen a) (blen b)))) (= (bat (bcat a b) i) (ite (< i (blen a)) (bat a i) (bat b (- i (blen a)))))) :pattern ((bat (bcat a b) i)))))`},
	{"bcat_assoc", []string{"bcat"}, `(assert (forall ((a Bytes) (b Bytes) (c Bytes)) (! (= (bcat (bcat a b) c) (bcat a (bcat b c))) :pattern ((bcat (bcat a b) c)))))`},
	{"bcat_inj", []string{"bcat"}, `(assert (forall ((a Bytes) (b Bytes) (c Bytes) (d Bytes)) (! (=> (and (= (bcat a b) (bcat c d)) (= (blen a) (blen c))) (and (= a c) (= b d))) :pattern ((bcat a b) (bcat c d)))))`},
	{"bupd_len", []string{"bupd"}, `(assert (forall ((b Bytes) (o Int) (x Bytes)) (! (= (blen (bupd b o x)) (blen b)) :pattern ((bupd b o x)))))`},
	{"bupd_slice", []string{"bupd", "bslice"}, `(assert (forall ((b Bytes) (o Int) (x Bytes) (lo Int) (hi Int)) (! (=> (and (<= 0 o) (<= (+ o (blen x)) (blen b)) (<= 0 lo) (<= lo hi) (<= hi (blen b))) (and (=> (and (<= o lo) (<= hi (+ o (blen x)))) (= (bslice (bupd b o x) lo hi) (bslice x (- lo o) (- hi o)))) (=> (or (<= hi o) (>= lo (+ o (blen x)))) (= (bslice (bupd b o x) lo hi) (bslice b lo hi))) (=> (and (< lo o) (< o hi) (<= hi (+ o (blen x)))) (= (bslice (bupd b o x) lo hi) (bcat (bslice b lo o) (bslice x 0 (- hi o))))) (=> (and (<= o lo) (< lo (+ o (blen x))) (< (+ o (blen x)) hi)) (= (bslice (bupd b o x) lo hi) (bcat (bslice x (- lo o) (blen x)) (bslice b (+ o (blen x)) hi)))) (=> (and (< lo o) (< (+ o (blen x)) hi)) (= (bslice (bupd b o x) lo hi) (bcat (bslice b lo o) (bcat x (bslice b (+ o (blen x)) hi))))))) :pattern ((bslice (bupd b o x) lo hi)))))`},
	{"bupd_at", []string{"bupd", "bat"}, `(assert (forall ((b Bytes) (o Int) (x Bytes) (i Int)) (! (=> (and (<= 0 o) (<= (+ o (blen x)) (blen b))) (= (bat (bupd b o x) i) (ite (and (<= o i) (< i (+ o (blen x)))) (bat x (- i o)) (bat b i)))) :pattern ((bat (bupd b o x) i)))))`},
	{"bupd_full", []string{"bupd"}, `(assert (forall ((b Bytes) (o Int) (x Bytes)) (! (=> (and (= o 0) (= (blen x) (blen b))) (= (bupd b o x) x)) :pattern ((bupd b o x)))))`},
	{"bupd_prefix", []string{"bupd", "bcat"}, `(assert (forall ((b Bytes) (o Int) (x Bytes)) (! (=> (and (= o 0) (<= (blen x) (blen b))) (= (bupd b o x) (bcat x (bslice b (blen x) (blen b))))) :pattern ((bupd b o x)))))`},
	{"bzero_slice", []string{"bzero", "bslice"}, `(assert (forall ((n Int) (lo Int) (hi Int)) (! (=> (and (<= 0 lo) (<= lo hi) (<= hi n)) (= (bslice (bzero n) lo hi) (bzero (- hi lo)))) :pattern ((bslice (bzero n) lo hi)))))`},
	{"bset_len", []string{"bset"}, `(assert (forall ((b Bytes) (i Int) (v Int)) (! (= (blen (bset b i v)) (blen b)) :pattern ((bset b i v)))))`},
	{"bset_at", []string{"bset", "bat"}, `(assert (forall ((b Bytes) (i Int) (v Int) (j Int)) (! (=> (and (<= 0 i) (< i (blen b)) (<= 0 v) (< v 256)) (= (bat (bset b i v) j) (ite (= j i) v (bat b j)))) :pattern ((bat (bset b i v) j)))))`},
	{"bset_slice", []string{"bset", "bslice"}, `(assert (forall ((b Bytes) (i Int) (v Int) (lo Int) (hi Int)) (! (=> (or (<= hi i) (> lo i)) (= (bslice (bset b i v) lo hi) (bslice b lo hi))) :pattern ((bslice (bset b i v) lo hi)))))`},
}

// World holds everything shared by a run.
type World struct {
	sigs      map[string]sigSnap // names the contracts were written against (spec/sigs.json)
	tables    map[*ssa.Global]*tableInfo
	tblObjs   []tblObj
	Prog      *ssa.Program
	Pkgs      []*packages.Package
	SSAPkgs   map[string]*ssa.Package
	CS        *ContractSet
	D         *Decls
	typeIDs   map[string]int
	typeByID  []types.Type
	structDT  map[string]Sort
	dtDecl    []string // datatype declarations in dependency order
	strLits   map[string]Term
	strOrder  []string
	fnRefs    map[string]Term
	fnByRef   map[string]*ssa.Function
	addr      map[string]*Addr // address term text -> structure
	specSyms  map[string]bool
	userAx    []smtAxiom
	lemmaAx   []smtAxiom
	fresh     int
	notes     map[string]int
	globalsRO map[*ssa.Global]bool
	sizes     types.Sizes
	roErrGlobals []string
	lockOrder *lockOrder
	shortOwner map[string]string
	fldTags   map[string]int
	heapArrays map[string]Sort
}

type Addr struct {
	Kind  string // "field", "elem", "cell", "belem"
	Array string // heap array name
	ASort Sort   // sort of the heap array
	Base  Term   // index into the array (Ref)
	Idx   Term   // elem: integer index (absolute into backing array)
	Elem  Sort
	G     *ssa.Global
}

func NewWorld() *World {
	return &World{
		D: NewDecls(), typeIDs: map[string]int{}, structDT: map[string]Sort{}, strLits: map[string]Term{},
		fnRefs: map[string]Term{}, fnByRef: map[string]*ssa.Function{}, addr: map[string]*Addr{},
		specSyms: map[string]bool{}, notes: map[string]int{}, SSAPkgs: map[string]*ssa.Package{},
		globalsRO: map[*ssa.Global]bool{}, lockOrder: newLockOrder(),
	}
}

func (w *World) Note(s string) { w.notes[s]++ }

func (w *World) Fresh(prefix string, s Sort) Term {
	w.fresh++
	return w.D.Const(fmt.Sprintf("%s!%d", prefix, w.fresh), s)
}

func shortHash(s string) string {
	h := sha1.Sum([]byte(s))
	return fmt.Sprintf("%x", h[:4])
}

func typeKey(t types.Type) string {
	return types.TypeString(unaliasDeep(t), nil)
}

// unaliasDeep resolves alias types (also behind one pointer), so that
// golang.org/x/crypto/ed25519.PrivateKey and crypto/ed25519.PrivateKey are one dynamic type.
func unaliasDeep(t types.Type) types.Type {
	t = types.Unalias(t)
	if p, ok := t.(*types.Pointer); ok {
		if e := types.Unalias(p.Elem()); e != p.Elem() {
			return types.NewPointer(e)
		}
	}
	return t
}

func (w *World) TypeID(t types.Type) int {
	k := typeKey(t)
	if id, ok := w.typeIDs[k]; ok {
		return id
	}
	id := len(w.typeIDs) + 1
	w.typeIDs[k] = id
	w.typeByID = append(w.typeByID, t)
	return id
}

func isByte(t types.Type) bool {
	b, ok := t.Underlying().(*types.Basic)
	return ok && (b.Kind() == types.Uint8)
}

func isByteSlice(t types.Type) bool {
	s, ok := t.Underlying().(*types.Slice)
	return ok && isByte(s.Elem())
}

func isByteArray(t types.Type) bool {
	a, ok := t.Underlying().(*types.Array)
	return ok && isByte(a.Elem())
}

func isString(t types.Type) bool {
	b, ok := t.Underlying().(*types.Basic)
	return ok && b.Info()&types.IsString != 0
}

// SortOf maps a Go type to an SMT sort.
func (w *World) SortOf(t types.Type) Sort {
	if s, ok := opaqueSort(t); ok {
		return s
	}
	switch u := t.Underlying().(type) {
	case *types.Basic:
		switch {
		case u.Info()&types.IsBoolean != 0:
			return SBool
		case u.Info()&types.IsInteger != 0:
			return SInt
		case u.Info()&types.IsString != 0:
			return SBytes
		case u.Info()&types.IsFloat != 0:
			return SReal
		case u.Kind() == types.UnsafePointer:
			return SRef
		case u.Kind() == types.UntypedNil:
			return SRef
		}
		return SRef
	case *types.Pointer, *types.Map, *types.Chan, *types.Signature, *types.Interface:
		return SRef
	case *types.Slice:
		return SSlice
	case *types.Array:
		if isByte(u.Elem()) {
			return SBytes
		}
		return ArraySort(SInt, w.SortOf(u.Elem()))
	case *types.Struct:
		return w.structSort(t, u)
	case *types.Tuple:
		return "Tuple"
	case *types.TypeParam:
		return SRef
	}
	if _, ok := t.(*types.TypeParam); ok {
		return SRef
	}
	return SRef
}

func (w *World) structName(t types.Type) string {
	if n, ok := t.(*types.Named); ok {
		obj := n.Obj()
		name := obj.Name()
		if obj.Pkg() != nil {
			name = obj.Pkg().Name() + "." + name
			// two packages with the same name (sync / internal/sync): keep names unique
			if w.shortOwner == nil {
				w.shortOwner = map[string]string{}
			}
			if owner, ok := w.shortOwner[name]; !ok {
				w.shortOwner[name] = obj.Pkg().Path()
			} else if owner != obj.Pkg().Path() {
				name += "_" + shortHash(obj.Pkg().Path())
			}
		}
		if n.TypeArgs() != nil && n.TypeArgs().Len() > 0 {
			// instantiations with the generic's own type parameters (as seen inside
			// generic bodies) share the heap arrays of the generic origin type
			allParams := true
			for i := 0; i < n.TypeArgs().Len(); i++ {
				if _, isTP := n.TypeArgs().At(i).(*types.TypeParam); !isTP {
					allParams = false
				}
			}
			if !allParams {
				name += "_" + shortHash(typeKey(t))
			}
		}
		return name
	}
	if a, ok := t.(*types.Alias); ok {
		return w.structName(types.Unalias(a))
	}
	return "anon_" + shortHash(typeKey(t))
}

func (w *World) structSort(t types.Type, st *types.Struct) Sort {
	name := "S_" + w.structName(t)
	if s, ok := w.structDT[name]; ok {
		return s
	}
	sym := smtSym(name)
	w.structDT[name] = Sort(sym)
	if st.NumFields() == 0 {
		w.dtDecl = append(w.dtDecl, fmt.Sprintf("(declare-datatype %s ((%s)))", sym, smtSym("mk_"+name)))
		return Sort(sym)
	}
	var fs []string
	for i := 0; i < st.NumFields(); i++ {
		f := st.Field(i)
		fs = append(fs, fmt.Sprintf("(%s %s)", smtSym(accName(name, f.Name(), i)), w.SortOf(f.Type())))
	}
	w.dtDecl = append(w.dtDecl, fmt.Sprintf("(declare-datatype %s ((%s %s)))", sym, smtSym("mk_"+name), strings.Join(fs, " ")))
	return Sort(sym)
}

func (w *World) StructMk(t types.Type, fields []Term) Term {
	st := t.Underlying().(*types.Struct)
	s := w.structSort(t, st)
	name := "S_" + w.structName(t)
	return App(s, smtSym("mk_"+name), fields...)
}

func (w *World) StructGet(t types.Type, v Term, i int) Term {
	st := t.Underlying().(*types.Struct)
	w.structSort(t, st)
	name := "S_" + w.structName(t)
	f := st.Field(i)
	// accessor applied to a constructor term: fold
	mk := smtSym("mk_" + name)
	if strings.HasPrefix(v.S, "("+mk+" ") {
		if parts := splitSexp(v.S); len(parts) == st.NumFields()+1 {
			return Term{parts[i+1], w.SortOf(f.Type())}
		}
	}
	return App(w.SortOf(f.Type()), smtSym(accName(name, f.Name(), i)), v)
}

// Zero returns the zero value of a Go type.
func (w *World) Zero(t types.Type) Term {
	if s, ok := opaqueSort(t); ok {
		return Term{"zero!" + string(s), s}
	}
	switch u := t.Underlying().(type) {
	case *types.Basic:
		switch {
		case u.Info()&types.IsBoolean != 0:
			return TFalse
		case u.Info()&types.IsInteger != 0:
			return IntLit(0)
		case u.Info()&types.IsString != 0:
			return Term{"bempty", SBytes}
		case u.Info()&types.IsFloat != 0:
			return Term{"0.0", SReal}
		}
		return TNil
	case *types.Slice:
		return NilSlice
	case *types.Array:
		if isByte(u.Elem()) {
			return App(SBytes, "bzero", IntLit(u.Len()))
		}
		es := w.SortOf(u.Elem())
		return Term{fmt.Sprintf("((as const %s) %s)", ArraySort(SInt, es), w.Zero(u.Elem()).S), ArraySort(SInt, es)}
	case *types.Struct:
		fs := make([]Term, u.NumFields())
		for i := range fs {
			fs[i] = w.Zero(u.Field(i).Type())
		}
		return w.StructMk(t, fs)
	}
	return TNil
}

var NilSlice = Term{"(mkslice nil 0 0 0)", SSlice}

func MkSlice(base, off, ln, cp Term) Term { return App(SSlice, "mkslice", base, off, ln, cp) }
func SBase(s Term) Term {
	if strings.HasPrefix(s.S, "(mkslice ") {
		if parts := splitSexp(s.S); len(parts) == 5 {
			return Term{parts[1], SRef}
		}
	}
	return App(SRef, "sbase", s)
}
func SOff(s Term) Term {
	if strings.HasPrefix(s.S, "(mkslice ") {
		if parts := splitSexp(s.S); len(parts) == 5 {
			return Term{parts[2], SInt}
		}
	}
	return App(SInt, "soff", s)
}
func SLen(s Term) Term {
	if strings.HasPrefix(s.S, "(mkslice ") {
		if parts := splitSexp(s.S); len(parts) == 5 {
			return Term{parts[3], SInt}
		}
	}
	return App(SInt, "slen", s)
}
func SCap(s Term) Term {
	if strings.HasPrefix(s.S, "(mkslice ") {
		if parts := splitSexp(s.S); len(parts) == 5 {
			return Term{parts[4], SInt}
		}
	}
	return App(SInt, "scap", s)
}

// splitSexp splits "(f a b c)" into ["f","a","b","c"] at top level.
func splitSexp(s string) []string {
	if len(s) < 2 || s[0] != '(' {
		return nil
	}
	s = s[1 : len(s)-1]
	var out []string
	depth := 0
	start := 0
	inBar := false
	for i := 0; i < len(s); i++ {
		c := s[i]
		if c == '|' {
			inBar = !inBar
		}
		if inBar {
			continue
		}
		switch c {
		case '(':
			depth++
		case ')':
			depth--
		case ' ':
			if depth == 0 {
				if i > start {
					out = append(out, s[start:i])
				}
				start = i + 1
			}
		}
	}
	if start < len(s) {
		out = append(out, s[start:])
	}
	return out
}

func BLen(b Term) Term       { return App(SInt, "blen", b) }
func BAt(b, i Term) Term     { return App(SInt, "bat", b, i) }
func BSlice(b, lo, hi Term) Term {
	return App(SBytes, "bslice", b, lo, hi)
}
func BCat(a, b Term) Term { return App(SBytes, "bcat", a, b) }

// StrLit returns the constant standing for a string literal.
func (w *World) StrLit(s string) Term {
	if s == "" {
		return Term{"bempty", SBytes}
	}
	if t, ok := w.strLits[s]; ok {
		return t
	}
	name := "str!" + shortHash(s)
	clean := make([]rune, 0, 12)
	for _, c := range s {
		if (c >= 'a' && c <= 'z') || (c >= 'A' && c <= 'Z') || (c >= '0' && c <= '9') {
			clean = append(clean, c)
		}
		if len(clean) >= 12 {
			break
		}
	}
	name += "!" + string(clean)
	t := w.D.Const(name, SBytes)
	w.strLits[s] = t
	w.strOrder = append(w.strOrder, s)
	return t
}

// strLitFacts returns assertions for the literals occurring in syms.
func (w *World) strLitFacts(used map[string]bool) []string {
	var out []string
	var present []string
	for _, s := range w.strOrder {
		t := w.strLits[s]
		if !used[t.S] {
			continue
		}
		present = append(present, t.S)
		out = append(out, fmt.Sprintf("(assert (= (blen %s) %d))", t.S, len(s)))
		if len(s) <= 8 {
			for i := 0; i < len(s); i++ {
				out = append(out, fmt.Sprintf("(assert (= (bat %s %d) %d))", t.S, i, s[i]))
			}
		}
	}
	if len(present) > 1 {
		out = append(out, "(assert (distinct "+strings.Join(present, " ")+"))")
	}
	return out
}

// heap array naming

func (w *World) FieldArray(structT types.Type, idx int) (string, Sort) {
	st := structT.Underlying().(*types.Struct)
	f := st.Field(idx)
	name := "H_" + w.structName(structT) + "." + f.Name()
	return name, ArraySort(SRef, w.SortOf(f.Type()))
}

func sortTag(s Sort) string {
	r := strings.NewReplacer("(", "", ")", "", " ", "_", "|", "")
	return r.Replace(string(s))
}

func (w *World) CellArray(t types.Type) (string, Sort) {
	if isByteArray(t) {
		return "BM", ArraySort(SRef, SBytes)
	}
	if at, ok := t.Underlying().(*types.Array); ok {
		// an array cell [N]T at address p shares the element memory used by
		// slices over it (p[:]): M_T[p]
		if _, isStruct := asStruct(at.Elem()); !isStruct {
			return w.ElemArray(at.Elem())
		}
	}
	s := w.SortOf(t)
	return "C_" + sortTag(s), ArraySort(SRef, s)
}

func (w *World) ElemArray(elem types.Type) (string, Sort) {
	if isByte(elem) {
		return "BM", ArraySort(SRef, SBytes)
	}
	s := w.SortOf(elem)
	return "M_" + sortTag(s), ArraySort(SRef, ArraySort(SInt, s))
}

func (w *World) MapArrays(m *types.Map) (pn string, ps Sort, vn string, vs Sort) {
	k := w.SortOf(m.Key())
	v := w.SortOf(m.Elem())
	// Go's type system separates maps of different (key, element) types: one pair of
	// arrays per map type. Type parameters are opaque (one class per sort).
	tag := sortTag(k) + "_" + sortTag(v)
	if !hasTypeParam(m.Key()) && !hasTypeParam(m.Elem()) {
		tag += "_" + shortHash(types.TypeString(m.Key(), nil)+"=>"+types.TypeString(m.Elem(), nil))
	}
	return "MapP_" + tag, ArraySort(SRef, ArraySort(k, SBool)), "MapV_" + tag, ArraySort(SRef, ArraySort(k, v))
}

func (w *World) FuncRef(fn *ssa.Function) Term {
	name := "fn!" + fn.String()
	if t, ok := w.fnRefs[name]; ok {
		return t
	}
	t := w.D.Const(name, SRef)
	w.fnRefs[name] = t
	w.fnByRef[t.S] = fn
	return t
}

func (w *World) NotesList() []string {
	ks := make([]string, 0, len(w.notes))
	for k, n := range w.notes {
		ks = append(ks, fmt.Sprintf("%s (x%d)", k, n))
	}
	sort.Strings(ks)
	return ks
}

// opaqueSort: library struct types that are modelled as values of an
// uninterpreted sort instead of being decomposed into their fields.
func opaqueSort(t types.Type) (Sort, bool) {
	if n, ok := types.Unalias(t).(*types.Named); ok && n.Obj().Pkg() != nil {
		switch n.Obj().Pkg().Path() + "." + n.Obj().Name() {
		case "time.Time":
			return "Time", true
		}
	}
	return "", false
}

// asStruct is t's struct type unless t is modelled opaquely.
func asStruct(t types.Type) (*types.Struct, bool) {
	if _, op := opaqueSort(t); op {
		return nil, false
	}
	st, ok := t.Underlying().(*types.Struct)
	return st, ok
}

func (w *World) fldTagsAsAny() map[string]int {
	if w.fldTags == nil {
		return map[string]int{}
	}
	return w.fldTags
}

func hasTypeParam(t types.Type) bool {
	switch x := t.(type) {
	case *types.TypeParam:
		return true
	case *types.Pointer:
		return hasTypeParam(x.Elem())
	case *types.Slice:
		return hasTypeParam(x.Elem())
	case *types.Named:
		if x.TypeArgs() != nil {
			for i := 0; i < x.TypeArgs().Len(); i++ {
				if hasTypeParam(x.TypeArgs().At(i)) {
					return true
				}
			}
		}
	}
	return false
}

func accName(structName, field string, idx int) string {
	if field == "_" {
		return fmt.Sprintf("%s._%d", structName, idx)
	}
	return structName + "." + field
}

// RangeVisitedArray: per map, the set of keys already yielded by the range loop in progress.
func (w *World) RangeVisitedArray(m *types.Map) (string, Sort) {
	pn, ps, _, _ := w.MapArrays(m)
	return "RangeVisited" + strings.TrimPrefix(pn, "MapP"), ps
}
