#!/usr/bin/env python3
"""Validates /verif/evidence/*.json and MANIFEST.json against their schemas and checks that
every evidence file comes from a passing run (discharged == obligations, no violations)."""
import json, sys, glob, os
try:
    import jsonschema
except ImportError:
    sys.exit("run with python3-vt (needs jsonschema)")
ES = json.load(open('/root/.vp/EVIDENCE.schema.json'))
MS = json.load(open('/root/.vp/MANIFEST.schema.json'))
m = json.load(open('/verif/MANIFEST.json'))
jsonschema.validate(m, MS)
bad = 0
claimed = [c['property_id'] for c in m['checks']]
for pid in claimed:
    f = '/verif/evidence/%s.json' % pid
    if not os.path.exists(f):
        print('MISSING', f); bad += 1; continue
    d = json.load(open(f))
    try:
        jsonschema.validate(d, ES)
    except Exception as e:
        print('SCHEMA', pid, str(e)[:200]); bad += 1; continue
    c = d['coverage']
    ok = c['obligations'] > 0 and c['discharged'] == c['obligations'] and not d.get('violations')
    print(pid, d.get('tier'), c['obligations'], c['discharged'], 'ok' if ok else 'BAD')
    bad += 0 if ok else 1
ids = [json.loads(l)['id'] for l in open('/verif/properties.jsonl')]
na = [x['property_id'] for x in m.get('not_applicable', [])]
if sorted(claimed + na) != sorted(ids):
    print('MANIFEST does not cover every property exactly once'); bad += 1
print('problems:', bad)
sys.exit(1 if bad else 0)
