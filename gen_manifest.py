#!/usr/bin/env python3
"""Regenerates MANIFEST.json from props.json (one entry per claimed property)."""
import json, subprocess
props = json.load(open('/verif/props.json'))
ids = [json.loads(l)['id'] for l in open('/verif/properties.jsonl')]
m = json.load(open('/verif/MANIFEST.json'))
hooks = subprocess.run(['git', '-C', '/repo', 'log', '--format=%H %s'], capture_output=True, text=True).stdout.splitlines()
m['hooks']['source_commits'] = [l.split()[0] for l in hooks if l.split(' ', 1)[1].startswith('verif:')]
checks = []
na = []
for pid in ids:
    p = props.get(pid)
    if not p or p.get('na'):
        na.append({"property_id": pid, "reason": (p or {}).get('na', 'no check built yet for this property (work in progress); see DESIGN.md section 6 for the plan')})
        continue
    checks.append({
        "property_id": pid,
        "quick_cmd": "./check %s --tier quick" % pid,
        "thorough_cmd": "./check %s --tier thorough" % pid,
        "evidence_file": "/verif/evidence/%s.json" % pid,
        "replay_cmd_template": "./check %s --replay {path}" % pid,
        "engine": "govc",
        "level_claimed": {"category": p.get('level', 'proof'), "text": p['text'], "design_ref": "DESIGN.md section 6, " + pid},
        "level_note": p['note'],
        "technique": p.get('technique', "contract-based deductive verification: //@ contracts on the real functions, VCs generated from go/ssa of /repo on every run, discharged by z3/cvc5"),
    })
m['checks'] = checks
m['not_applicable'] = na
m['engines'][0]['serves_properties'] = [c['property_id'] for c in checks]
json.dump(m, open('/verif/MANIFEST.json', 'w'), indent=1)
print(len(checks), 'checks,', len(na), 'not applicable')
