#!/usr/bin/env python3
# usage: tools_core.py file.smt2 -- greedy minimal unsat core of the assertions
import sys,subprocess
s=open(sys.argv[1]).read()
lines=s.split('\n')
ax=[i for i,l in enumerate(lines) if l.startswith('(assert ')]
def run(skip,t=8):
    txt='\n'.join(l for i,l in enumerate(lines) if i not in skip)
    open('/tmp/core_tmp.smt2','w').write(txt)
    r=subprocess.run(['z3-new','-T:%d'%t,'/tmp/core_tmp.smt2'],capture_output=True,text=True); return r.stdout.split('\n')[0]
print('all',run(set()))
skip=set()
for i in ax:
    if run(skip|{i})=='unsat':
        skip.add(i)
for i in ax:
    if i not in skip: print(lines[i][:600])
