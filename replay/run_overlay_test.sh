#!/bin/bash
# usage: run_overlay_test.sh <pkgdir-relative-to-repo> <test-file> <TestName> [repo]
# Injects the test file into the package through a build overlay and runs it.
set -u
PKG=$1; FILE=$2; TEST=$3; REPO=${4:-/repo}
TMP=$(mktemp -d)
trap 'rm -rf "$TMP"' EXIT
DEST="$REPO/$PKG/zz_verif_replay_$(basename "$FILE")"
python3 - "$DEST" "$FILE" "$TMP/ov.json" <<'PY'
import json,sys
json.dump({"Replace":{sys.argv[1]:sys.argv[2]}},open(sys.argv[3],"w"))
PY
cd "$REPO/$PKG" && GOFLAGS=-mod=mod GOPROXY=off go test -overlay "$TMP/ov.json" -vet=off -count=1 -timeout 120s -run "^$TEST\$" . 2>&1 | tail -25
exit ${PIPESTATUS[0]}
