package secretstore

// Replay for the known finding C01.sig_binds_attribution (DESIGN.md B-13): the
// device signature covers the bare payload only, so a fellow member who knows
// the sender's chain key (every member does) can re-seal a genuinely signed
// payload under another counter; the receiver accepts it with the forged
// counter. The test states the property (the forgery must be rejected) and
// therefore FAILS on the current code.

import (
	"context"
	"testing"

	"github.com/ipfs/go-cid"
	"github.com/stretchr/testify/require"
	"golang.org/x/crypto/nacl/secretbox"
	"google.golang.org/protobuf/proto"

	"berty.tech/weshnet/v2/pkg/cryptoutil"
	"berty.tech/weshnet/v2/pkg/protocoltypes"
)

func TestVerifReplayC01Reattribution(t *testing.T) {
	ctx := context.Background()
	g, _, err := protocoltypes.NewGroupMultiMember()
	require.NoError(t, err)
	gpk, err := g.GetPubKey()
	require.NoError(t, err)

	mk := func() *secretStore {
		s, err := newInMemSecretStore(nil)
		require.NoError(t, err)
		return s
	}
	alice, bob, carol := mk(), mk(), mk()
	mdA, err := alice.GetOwnMemberDeviceForGroup(g)
	require.NoError(t, err)
	mdB, err := bob.GetOwnMemberDeviceForGroup(g)
	require.NoError(t, err)
	mdC, err := carol.GetOwnMemberDeviceForGroup(g)
	require.NoError(t, err)

	// Alice announces her chain key to Bob and Carol
	forBob, err := alice.GetShareableChainKey(ctx, g, mdB.Member())
	require.NoError(t, err)
	forCarol, err := alice.GetShareableChainKey(ctx, g, mdC.Member())
	require.NoError(t, err)
	require.NoError(t, carol.RegisterChainKey(ctx, g, mdA.Device(), forCarol))

	// Bob, a legitimate member, learns Alice's chain key (value and counter)
	bobMD, err := bob.deviceKeystore.memberDeviceForGroup(g)
	require.NoError(t, err)
	dck, err := decryptDeviceChainKey(forBob, g, bobMD.member, mdA.Device())
	require.NoError(t, err)

	// Alice sends one genuine message
	payload, err := proto.Marshal(&protocoltypes.EncryptedMessage{Plaintext: []byte("pay 10")})
	require.NoError(t, err)
	sealed, err := alice.SealEnvelope(ctx, g, payload)
	require.NoError(t, err)

	// Bob opens it like any member ...
	env, hdr, err := bob.OpenEnvelopeHeaders(sealed, g)
	require.NoError(t, err)
	ck1, mk1, err := deriveNextKeys(dck.ChainKey, nil, g.GetPublicKey())
	require.NoError(t, err)
	clear, ok := secretbox.Open(nil, env.Message, uint64AsNonce(hdr.Counter), (*[32]byte)(&mk1))
	require.True(t, ok)

	// ... and re-seals Alice's signed payload under a counter Alice never used
	ck2, _, err := deriveNextKeys(ck1, nil, g.GetPublicKey())
	require.NoError(t, err)
	_, mk3, err := deriveNextKeys(ck2, nil, g.GetPublicKey())
	require.NoError(t, err)
	forgedCounter := hdr.Counter + 2
	forgedHeaders, err := proto.Marshal(&protocoltypes.MessageHeaders{Counter: forgedCounter, DevicePk: hdr.DevicePk, Sig: hdr.Sig})
	require.NoError(t, err)
	nonce, err := cryptoutil.GenerateNonce()
	require.NoError(t, err)
	forged, err := proto.Marshal(&protocoltypes.MessageEnvelope{
		MessageHeaders: secretbox.Seal(nil, forgedHeaders, nonce, g.GetSharedSecret()),
		Message:        secretbox.Seal(nil, clear, uint64AsNonce(forgedCounter), (*[32]byte)(&mk3)),
		Nonce:          nonce[:],
	})
	require.NoError(t, err)

	// Carol must not accept it as a message of Alice with that counter
	env2, hdr2, err := carol.OpenEnvelopeHeaders(forged, g)
	require.NoError(t, err)
	msg, err := carol.OpenEnvelopePayload(ctx, env2, hdr2, gpk, mdC.Device(), cid.Undef)
	if err == nil {
		t.Fatalf("forged envelope accepted: payload %q attributed to Alice's device with counter %d, which Alice never sealed (she used %d)", msg.Plaintext, hdr2.Counter, hdr.Counter)
	}
}
