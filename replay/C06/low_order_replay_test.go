package handshake

// Replay for C06 (finding B-4): a peer that sends a low-order ephemeral key
// makes the "shared" ephemeral secret a public constant. A signature over that
// constant, harvested from a victim in one session, authenticates the attacker
// as the victim towards any responder in another session.

import (
	"context"
	"io"
	"testing"
	"time"

	p2pcrypto "github.com/libp2p/go-libp2p/core/crypto"
	"go.uber.org/zap"
	"golang.org/x/crypto/nacl/box"
	"google.golang.org/protobuf/proto"

	"berty.tech/weshnet/v2/pkg/cryptoutil"
	"berty.tech/weshnet/v2/pkg/protoio"
)

func TestVerifReplayC06LowOrderEphemeral(t *testing.T) {
	ctx, cancel := context.WithTimeout(context.Background(), 20*time.Second)
	defer cancel()
	newKey := func() p2pcrypto.PrivKey {
		sk, _, err := p2pcrypto.GenerateEd25519Key(nil)
		if err != nil {
			t.Fatal(err)
		}
		return sk
	}
	victim, attacker, target := newKey(), newKey(), newKey()
	var zero, k0, anyPriv [cryptoutil.KeySize]byte
	anyPriv[0] = 8
	box.Precompute(&k0, &zero, &anyPriv) // the constant "shared" secret of every session with a low-order point

	// ---- phase 1: the victim contacts the attacker; the attacker answers with the low-order point ----
	v2a, a2vW := io.Pipe() // attacker writes, victim reads
	a2v, v2aW := io.Pipe() // victim writes, attacker reads
	harvested := make(chan *RequesterAuthenticatePayload, 1)
	go func() {
		r := protoio.NewDelimitedReader(a2v, 2048)
		w := protoio.NewDelimitedWriter(a2vW)
		hello := HelloPayload{}
		if err := r.ReadMsg(&hello); err != nil {
			harvested <- nil
			return
		}
		var a [cryptoutil.KeySize]byte
		copy(a[:], hello.EphemeralPubKey)
		_ = w.WriteMsg(&HelloPayload{EphemeralPubKey: zero[:]})
		env := BoxEnvelope{}
		if err := r.ReadMsg(&env); err != nil {
			harvested <- nil
			return
		}
		mongOwn, err := cryptoutil.EdwardsToMontgomeryPriv(attacker)
		if err != nil {
			harvested <- nil
			return
		}
		var sh [cryptoutil.KeySize]byte
		box.Precompute(&sh, &a, mongOwn)
		key := cryptoutil.ConcatAndHashSha256(k0[:], sh[:])
		clear, ok := box.OpenAfterPrecomputation(nil, env.Box, &nonceRequesterAuthenticate, key)
		if !ok {
			harvested <- nil
			return
		}
		req := &RequesterAuthenticatePayload{}
		if err := proto.Unmarshal(clear, req); err != nil {
			harvested <- nil
			return
		}
		harvested <- req
		a2vW.Close()
		a2v.Close()
	}()
	go func() {
		_ = RequestUsingReaderWriter(ctx, zap.NewNop(), protoio.NewDelimitedReader(v2a, 2048), protoio.NewDelimitedWriter(v2aW), victim, attacker.GetPublic())
		v2aW.Close()
	}()
	var proof *RequesterAuthenticatePayload
	select {
	case proof = <-harvested:
	case <-ctx.Done():
		t.Fatal("phase 1 timed out")
	}
	if proof == nil {
		t.Log("the victim refused the low-order point: nothing to replay (this is the repaired behaviour)")
		return
	}

	// ---- phase 2: the attacker presents the victim's identity to an unrelated responder ----
	t2a, a2tW := io.Pipe() // attacker writes, target reads
	a2t, t2aW := io.Pipe() // target writes, attacker reads
	type result struct {
		pk  p2pcrypto.PubKey
		err error
	}
	done := make(chan result, 1)
	go func() {
		pk, err := ResponseUsingReaderWriter(ctx, zap.NewNop(), protoio.NewDelimitedReader(t2a, 2048), protoio.NewDelimitedWriter(t2aW), target)
		done <- result{pk, err}
	}()
	go func() {
		r := protoio.NewDelimitedReader(a2t, 2048)
		w := protoio.NewDelimitedWriter(a2tW)
		_ = w.WriteMsg(&HelloPayload{EphemeralPubKey: zero[:]})
		hello := HelloPayload{}
		if err := r.ReadMsg(&hello); err != nil {
			return
		}
		clear, _ := proto.Marshal(proof)
		key := cryptoutil.ConcatAndHashSha256(k0[:], k0[:])
		_ = w.WriteMsg(&BoxEnvelope{Box: box.SealAfterPrecomputation(nil, clear, &nonceRequesterAuthenticate, key)})
		accept := BoxEnvelope{}
		if err := r.ReadMsg(&accept); err != nil {
			return
		}
		_ = w.WriteMsg(&RequesterAcknowledgePayload{Success: true})
	}()
	select {
	case res := <-done:
		if res.err == nil {
			t.Fatalf("responder authenticated the attacker as a third account: returned key equals the victim's: %v", res.pk.Equals(victim.GetPublic()))
		}
	case <-ctx.Done():
		t.Fatal("phase 2 timed out")
	}
}
