package weshnet

// Replay for obligations C13.list.message.order / C13.list.metadata.order:
// the listing must follow log (oldest-first) order and honour since/until.
// Injected with `go test -overlay` (nothing is written into /repo).

import (
	"context"
	"fmt"
	"testing"
	"time"

	"github.com/stretchr/testify/require"

	"berty.tech/weshnet/v2/pkg/protocoltypes"
)

func TestVerifReplayC13ListOrder(t *testing.T) {
	ctx, cancel := context.WithCancel(context.Background())
	defer cancel()

	peers, _, cleanup := CreatePeersWithGroupTest(ctx, t, "/tmp/verif_c13_replay", 1, 1)
	defer cleanup()

	const n = 5
	for i := 0; i < n; i++ {
		_, err := peers[0].GC.MessageStore().AddMessage(ctx, []byte(fmt.Sprintf("m%d", i)))
		require.NoError(t, err)
	}
	<-time.After(300 * time.Millisecond)

	collect := func(since, until []byte, reverse bool) ([]*protocoltypes.GroupMessageEvent, error) {
		ch, err := peers[0].GC.MessageStore().ListEvents(ctx, since, until, reverse)
		if err != nil {
			return nil, err
		}
		var out []*protocoltypes.GroupMessageEvent
		for e := range ch {
			out = append(out, e)
		}
		return out, nil
	}

	evts, err := collect(nil, nil, false)
	require.NoError(t, err)
	require.Len(t, evts, n)
	for i, e := range evts {
		require.Equal(t, fmt.Sprintf("m%d", i), string(e.Message), "default listing must be oldest first (position %d)", i)
	}

	rev, err := collect(nil, nil, true)
	require.NoError(t, err)
	require.Len(t, rev, n)
	for i, e := range rev {
		require.Equal(t, fmt.Sprintf("m%d", n-1-i), string(e.Message), "reverse listing must be newest first (position %d)", i)
	}

	// since = an older entry, until = a newer one: the inclusive range, in log order
	sub, err := collect(evts[1].EventContext.Id, evts[3].EventContext.Id, false)
	require.NoError(t, err, "a since that precedes until in the log is a valid range")
	require.Len(t, sub, 3)
	for i, e := range sub {
		require.Equal(t, fmt.Sprintf("m%d", i+1), string(e.Message))
	}
}
