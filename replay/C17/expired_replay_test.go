package rendezvous

// Replay for obligation C17.expired: IsExpired() <=> now >= deadline, and a
// registered topic resolves to a point whose deadline lies in the future.

import (
	"testing"
	"time"
)

func TestVerifReplayC17Expired(t *testing.T) {
	r := NewRotationInterval(time.Hour)
	future := r.NewRendezvousPointForPeriod(time.Now(), "topic", []byte("seedseedseedseedseedseedseedseed"))
	if future.IsExpired() {
		t.Fatalf("point with deadline %v (in the future) reported expired", future.Deadline())
	}
	past := r.NewRendezvousPointForPeriod(time.Now().Add(-3*time.Hour), "topic", []byte("seedseedseedseedseedseedseedseed"))
	if !past.IsExpired() {
		t.Fatalf("point with deadline %v (in the past) reported not expired", past.Deadline())
	}
	r.RegisterRotation(time.Now().Add(-3*time.Hour), "topic", []byte("seedseedseedseedseedseedseedseed"))
	p, err := r.PointForTopic("topic")
	if err != nil {
		t.Fatal(err)
	}
	if !p.Deadline().After(time.Now()) {
		t.Fatalf("PointForTopic returned a point whose deadline %v is not in the future", p.Deadline())
	}
}
