package weshnet

// Replay for the C16 obligations on connectedness_manager.go:
//  - lockorder (AssociatePeer takes muState then notify.L, the waiter holds
//    notify.L and takes muState in updateStatus): deadlock under stress;
//  - C16.broadcast-under-L (UpdateState changes a status and broadcasts without
//    holding the waiters' lock): a waiter misses the update.

import (
	"context"
	"fmt"
	"runtime"
	"sync"
	"sync/atomic"
	"testing"
	"time"

	peer "github.com/libp2p/go-libp2p/core/peer"
)

func TestVerifReplayC16Deadlock(t *testing.T) {
	m := NewConnectednessManager()
	const group = "g"
	stop := time.Now().Add(6 * time.Second)
	progress := make(chan struct{}, 1024)
	done := make(chan struct{})

	go func() { // waiter
		cur := PeersConnectedness{}
		for time.Now().Before(stop) {
			ctx, cancel := context.WithTimeout(context.Background(), time.Millisecond)
			m.WaitForConnectednessChange(ctx, group, cur)
			cancel()
			select {
			case progress <- struct{}{}:
			default:
			}
		}
		close(done)
	}()
	go func() { // associator
		for i := 0; time.Now().Before(stop); i++ {
			m.AssociatePeer(group, peer.ID(fmt.Sprintf("p%d", i%64)))
			m.UpdateState(peer.ID(fmt.Sprintf("p%d", i%64)), ConnectednessType(i%3))
		}
	}()

	last := time.Now()
	for {
		select {
		case <-done:
			return
		case <-progress:
			last = time.Now()
		case <-time.After(100 * time.Millisecond):
			if time.Since(last) > 3*time.Second {
				t.Fatalf("no progress for 3s: waiter and associator are deadlocked (lock-order inversion muState <-> notify.L)")
			}
		}
	}
}

func TestVerifReplayC16MissedUpdate(t *testing.T) {
	deadline := time.Now().Add(10 * time.Second)
	workers := runtime.NumCPU()
	var rounds int64
	fail := make(chan string, workers)
	var wg sync.WaitGroup
	for w := 0; w < workers; w++ {
		wg.Add(1)
		go func() {
			defer wg.Done()
			for time.Now().Before(deadline) {
				atomic.AddInt64(&rounds, 1)
				m := NewConnectednessManager()
				const group = "g"
				p := peer.ID("p")
				m.AssociatePeer(group, p)
				cur := PeersConnectedness{}
				// bring the waiter's view up to date
				ctx0, c0 := context.WithTimeout(context.Background(), time.Second)
				m.WaitForConnectednessChange(ctx0, group, cur)
				c0()

				got := make(chan bool, 1)
				ctx, cancel := context.WithTimeout(context.Background(), 700*time.Millisecond)
				go func() {
					upd, ok := m.WaitForConnectednessChange(ctx, group, cur)
					got <- ok && len(upd) > 0
				}()
				// change the tracked state concurrently with the waiter going to sleep
				runtime.Gosched()
				m.UpdateState(p, ConnectednessTypeConnected)
				ok := <-got
				cancel()
				if !ok {
					select {
					case fail <- "tracked state differs from what the waiter last saw, yet the waiter only returned on timeout (missed update)":
					default:
					}
					return
				}
			}
		}()
	}
	wg.Wait()
	select {
	case msg := <-fail:
		t.Fatalf("after %d rounds: %s", atomic.LoadInt64(&rounds), msg)
	default:
		t.Logf("%d rounds without a missed update", atomic.LoadInt64(&rounds))
	}
}
