package queue

// Replay for obligation C15.wakeup.buffered (W1 of the wait/notify protocol):
// a consumer must never stay blocked while the queue is non-empty. Stress
// replay on the real package: tight producer/consumer hand-off on all cores
// with a stall detector.

import (
	"context"
	"runtime"
	"sync/atomic"
	"testing"
	"time"
)

type verifNoopTracer struct{}

func (verifNoopTracer) ItemQueued(string, int) {}
func (verifNoopTracer) ItemPop(string, int)    {}

func TestVerifReplayC15LostWakeup(t *testing.T) {
	runtime.GOMAXPROCS(runtime.NumCPU())
	deadline := time.Now().Add(8 * time.Second)
	for round := 0; time.Now().Before(deadline); round++ {
		q := NewSimpleQueue[int]("replay", verifNoopTracer{})
		ctx, cancel := context.WithCancel(context.Background())
		var consumed int64
		done := make(chan struct{})
		go func() {
			defer close(done)
			for {
				if _, ok := q.WaitForItem(ctx); !ok {
					return
				}
				atomic.AddInt64(&consumed, 1)
			}
		}()
		const n = 20000
		for i := 0; i < n; i++ {
			q.Add(i)
			// wait for the hand-off, with a stall detector
			start := time.Now()
			for atomic.LoadInt64(&consumed) != int64(i+1) {
				if time.Since(start) > 2*time.Second {
					cancel()
					t.Fatalf("round %d: consumer blocked for 2s with item %d queued (lost wake-up)", round, i)
				}
				runtime.Gosched()
			}
		}
		cancel()
		<-done
	}
}
