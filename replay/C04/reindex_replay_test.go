package weshnet

// Replays for C04.
// B-1: the index is rebuilt from the log in arrival order; after the account
//      group is closed and reopened the entries arrive in another order and the
//      reported contact state changes although the log is the same.
// B-9: the admins "set" is keyed by freshly decoded key objects, so handling the
//      same announcement again (every re-index does) adds the same admin again.

import (
	"context"
	crand "crypto/rand"
	"testing"
	"time"

	"github.com/libp2p/go-libp2p/core/crypto"
	mocknet "github.com/libp2p/go-libp2p/p2p/net/mock"
	"github.com/stretchr/testify/require"

	"berty.tech/weshnet/v2/pkg/protocoltypes"
	"berty.tech/weshnet/v2/pkg/testutil"
)

func TestVerifReplayC04ReopenKeepsState(t *testing.T) {
	ctx, cancel := context.WithTimeout(context.Background(), 2*time.Minute)
	defer cancel()

	logger, cleanupLogger := testutil.Logger(t)
	defer cleanupLogger()

	opts := TestingOpts{Mocknet: mocknet.New(), Logger: logger, ConnectFunc: ConnectAll}
	nodes, cleanup := NewTestingProtocolWithMockedPeers(ctx, t, &opts, nil, 1)
	defer cleanup()
	svc := nodes[0].Service.(*service)

	_, contactPub, err := crypto.GenerateEd25519Key(crand.Reader)
	require.NoError(t, err)
	contactPK, err := contactPub.Raw()
	require.NoError(t, err)
	seed := make([]byte, 32)
	_, _ = crand.Read(seed)

	// a history in which the latest event about the contact decides: request, then block
	_, err = nodes[0].Client.ContactRequestSend(ctx, &protocoltypes.ContactRequestSend_Request{
		Contact: &protocoltypes.ShareableContact{Pk: contactPK, PublicRendezvousSeed: seed},
	})
	require.NoError(t, err)
	_, err = nodes[0].Client.ContactBlock(ctx, &protocoltypes.ContactBlock_Request{ContactPk: contactPK})
	require.NoError(t, err)

	state := func() protocoltypes.ContactState {
		return svc.getAccountGroup().MetadataStore().getContactStatus(contactPub)
	}
	require.Equal(t, protocoltypes.ContactState_ContactStateBlocked, state(), "before reopening")

	accountPK := svc.getAccountGroup().Group().PublicKey
	_, err = nodes[0].Client.DeactivateGroup(ctx, &protocoltypes.DeactivateGroup_Request{GroupPk: accountPK})
	require.NoError(t, err)
	_, err = nodes[0].Client.ActivateGroup(ctx, &protocoltypes.ActivateGroup_Request{GroupPk: accountPK, LocalOnly: true})
	require.NoError(t, err)

	deadline := time.Now().Add(10 * time.Second)
	for time.Now().Before(deadline) && state() == protocoltypes.ContactState_ContactStateUndefined {
		time.Sleep(100 * time.Millisecond) // the log is loaded asynchronously
	}
	time.Sleep(500 * time.Millisecond)
	require.Equal(t, protocoltypes.ContactState_ContactStateBlocked, state(), "same log, reopened: the latest event about the contact (blocked) must still decide")
}

func TestVerifReplayC04AdminsAreASet(t *testing.T) {
	_, pub, err := crypto.GenerateEd25519Key(crand.Reader)
	require.NoError(t, err)
	raw, err := pub.Raw()
	require.NoError(t, err)
	idx := &metadataStoreIndex{admins: map[crypto.PubKey]struct{}{}}
	evt := &protocoltypes.MultiMemberGroupInitialMemberAnnounced{MemberPk: raw}
	require.NoError(t, idx.handleMultiMemberInitialMember(evt))
	_ = idx.handleMultiMemberInitialMember(evt) // the same announcement seen again by a re-index
	require.Len(t, idx.admins, 1, "the same member was recorded as admin more than once")
}
