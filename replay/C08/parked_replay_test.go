package weshnet

// Replays for C08 ("every decryptable message in the log is delivered, none stays parked").
// Injected into package weshnet through a build overlay by /verif/replay/run_overlay_test.sh.

import (
	"context"
	"fmt"
	"testing"
	"time"

	"github.com/libp2p/go-libp2p/p2p/host/eventbus"
	"github.com/stretchr/testify/require"

	"berty.tech/weshnet/v2/pkg/protocoltypes"
	"berty.tech/weshnet/v2/pkg/testutil"
)

// A member announces its chain key after it has already sent `before` messages (those can never be
// opened by the receiver: forward secrecy), then sends `after` more. The receiver gets all of them
// before the chain key, parks them, then the chain key is registered. Every one of the `after`
// messages is decryptable from that moment on and no further event is needed to release them.
func TestVerifReplayC08ParkedBehindUndecryptable(t *testing.T) {
	testutil.FilterSpeed(t, testutil.Fast)

	ctx, cancel := context.WithCancel(context.Background())
	defer cancel()

	const before, after = 3, 5

	peers, _, cleanup := CreatePeersWithGroupTest(ctx, t, "/tmp/verif_c08_replay", 2, 1)
	defer cleanup()

	dPK0 := peers[0].GC.DevicePubKey()
	dPK0Raw, err := dPK0.Raw()
	require.NoError(t, err)

	cadded, err := peers[1].GC.MessageStore().EventBus().Subscribe(new(messageItem), eventbus.BufSize(before+after))
	require.NoError(t, err)

	for i := 0; i < before; i++ {
		_, err = peers[0].GC.MessageStore().AddMessage(ctx, []byte(fmt.Sprintf("early message %d", i)))
		require.NoError(t, err)
	}

	// the chain key as the sender shares it now: good for the messages sealed from here on
	ds0For1, err := peers[0].SecretStore.GetShareableChainKey(ctx, peers[0].GC.Group(), peers[1].GC.MemberPubKey())
	require.NoError(t, err)

	for i := 0; i < after; i++ {
		_, err = peers[0].GC.MessageStore().AddMessage(ctx, []byte(fmt.Sprintf("late message %d", i)))
		require.NoError(t, err)
	}

	// all of them reach the receiver and are parked (no chain key yet)
	for i := 0; i < before+after; i++ {
		select {
		case <-cadded.Out():
		case <-time.After(10 * time.Second):
			require.FailNow(t, "timeout while waiting for replicated entries")
		}
	}
	cadded.Close()
	size, ok := peers[1].GC.MessageStore().CacheSizeForDevicePK(dPK0Raw)
	require.True(t, ok)
	require.Equal(t, before+after, size)

	cevent, err := peers[1].GC.MessageStore().EventBus().Subscribe(new(*protocoltypes.GroupMessageEvent), eventbus.BufSize(before+after))
	require.NoError(t, err)
	defer cevent.Close()

	require.NoError(t, peers[1].SecretStore.RegisterChainKey(ctx, peers[0].GC.Group(), dPK0, ds0For1))
	peers[1].GC.MessageStore().ProcessMessageQueueForDevicePK(ctx, dPK0Raw)

	delivered := 0
	deadline := time.After(5 * time.Second)
wait:
	for delivered < after {
		select {
		case e := <-cevent.Out():
			evt := e.(*protocoltypes.GroupMessageEvent)
			t.Logf("delivered: %q", evt.Message)
			delivered++
		case <-deadline:
			break wait
		}
	}
	// at quiescence only the undecryptable ones are parked (they are retried whenever a message is opened)
	for i := 0; i < 40; i++ {
		if size, _ = peers[1].GC.MessageStore().CacheSizeForDevicePK(dPK0Raw); size == before {
			break
		}
		time.Sleep(50 * time.Millisecond)
	}
	t.Logf("C08 replay: %d of %d decryptable messages delivered, %d still parked", delivered, after, size)
	if delivered != after || size != before {
		t.Fatalf("VIOLATION C08: %d decryptable message(s) stay parked behind %d undecryptable one(s) after the chain key was registered", after-delivered, before)
	}
}
