package weshnet

// Replay for C08, schedule-dependent: the chain key of the sender is registered between the moment the
// message loop has looked the device cache up ("chain key unknown") and the moment it parks the message.
// run_race_replay.sh builds the package with a copy of store_message.go in which ONE line is added: a call
// of verifSchedPoint() at that point of processMessageLoop (nothing else is changed).

import (
	"context"
	"sync"
	"testing"
	"time"

	"github.com/libp2p/go-libp2p/p2p/host/eventbus"
	"github.com/stretchr/testify/require"

	"berty.tech/weshnet/v2/pkg/protocoltypes"
	"berty.tech/weshnet/v2/pkg/testutil"
)

var verifSchedHook func()

func verifSchedPoint() {
	if h := verifSchedHook; h != nil {
		h()
	}
}

func TestVerifReplayC08ParkAfterRegistration(t *testing.T) {
	testutil.FilterSpeed(t, testutil.Fast)

	ctx, cancel := context.WithCancel(context.Background())
	defer cancel()

	peers, _, cleanup := CreatePeersWithGroupTest(ctx, t, "/tmp/verif_c08_race", 2, 1)
	defer cleanup()

	dPK0 := peers[0].GC.DevicePubKey()
	dPK0Raw, err := dPK0.Raw()
	require.NoError(t, err)
	ds0For1, err := peers[0].SecretStore.GetShareableChainKey(ctx, peers[0].GC.Group(), peers[1].GC.MemberPubKey())
	require.NoError(t, err)

	cevent, err := peers[1].GC.MessageStore().EventBus().Subscribe(new(*protocoltypes.GroupMessageEvent), eventbus.BufSize(4))
	require.NoError(t, err)
	defer cevent.Close()

	// the other thread (handleGroupMetadataEvent) gets to run exactly in the window
	var once sync.Once
	reached := make(chan struct{})
	verifSchedHook = func() {
		once.Do(func() {
			require.NoError(t, peers[1].SecretStore.RegisterChainKey(ctx, peers[0].GC.Group(), dPK0, ds0For1))
			peers[1].GC.MessageStore().ProcessMessageQueueForDevicePK(ctx, dPK0Raw)
			close(reached)
		})
	}
	defer func() { verifSchedHook = nil }()

	_, err = peers[0].GC.MessageStore().AddMessage(ctx, []byte("hello"))
	require.NoError(t, err)

	select {
	case <-reached:
	case <-time.After(10 * time.Second):
		require.FailNow(t, "the message never reached the scheduling point")
	}

	select {
	case e := <-cevent.Out():
		t.Logf("delivered: %q", e.(*protocoltypes.GroupMessageEvent).Message)
	case <-time.After(5 * time.Second):
		size, _ := peers[1].GC.MessageStore().CacheSizeForDevicePK(dPK0Raw)
		t.Fatalf("VIOLATION C08: the chain key is registered, the message is decryptable, nothing more will happen, and it is not delivered (%d message(s) parked)", size)
	}
}
