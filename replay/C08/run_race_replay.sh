#!/bin/bash
# usage: run_race_replay.sh [repo]
# Builds package weshnet with (1) the replay test and (2) a copy of the CURRENT store_message.go in which a
# single line `verifSchedPoint()` is inserted in processMessageLoop right after the comment that opens the
# "chain key unknown" branch, and runs TestVerifReplayC08ParkAfterRegistration.
set -u
REPO=${1:-/repo}
HERE=$(cd "$(dirname "$0")" && pwd)
TMP=$(mktemp -d)
trap 'rm -rf "$TMP"' EXIT
python3 - "$REPO" "$HERE" "$TMP" <<'PY'
import json,sys,re
repo,here,tmp=sys.argv[1:4]
src=open(repo+'/store_message.go').read()
marker="			// we dont know the chain key yet"
if src.count(marker)!=1:
    sys.exit("cannot place the scheduling point: marker comment not found exactly once")
src=src.replace(marker,"			verifSchedPoint()\n"+marker)
open(tmp+'/store_message.go','w').write(src)
json.dump({"Replace":{repo+'/store_message.go':tmp+'/store_message.go',
                      repo+'/zz_verif_replay_race_test.go':here+'/race_replay_test.go'}},open(tmp+'/ov.json','w'))
PY
[ $? -eq 0 ] || exit 2
cd "$REPO" && GOFLAGS=-mod=mod GOPROXY=off go test -overlay "$TMP/ov.json" -vet=off -count=1 -timeout 120s -run '^TestVerifReplayC08ParkAfterRegistration$' . 2>&1 | tail -25
exit ${PIPESTATUS[0]}
