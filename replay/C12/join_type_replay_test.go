package weshnet

// Replay for C12 (finding B-5): a validly signed multi-member invitation whose
// group type has been rewritten must not be joined.

import (
	"context"
	"testing"

	"github.com/stretchr/testify/require"

	"berty.tech/weshnet/v2/pkg/protocoltypes"
)

func TestVerifReplayC12JoinType(t *testing.T) {
	ctx, cancel := context.WithCancel(context.Background())
	defer cancel()

	peers, _, cleanup := CreatePeersWithGroupTest(ctx, t, "/tmp/verif_c12_replay", 1, 1)
	defer cleanup()

	api := ipfsAPIUsingMockNet(ctx, t)
	ownCG, err := peers[0].DB.openAccountGroup(ctx, nil, api)
	require.NoError(t, err)

	for _, typ := range []protocoltypes.GroupType{protocoltypes.GroupType_GroupTypeContact, protocoltypes.GroupType_GroupTypeAccount, protocoltypes.GroupType_GroupTypeUndefined} {
		g, _, err := NewGroupMultiMember()
		require.NoError(t, err)
		g.GroupType = typ // the signature covers the secret only: still "valid"
		require.NoError(t, g.IsValid())
		_, err = ownCG.MetadataStore().GroupJoin(ctx, g)
		require.Error(t, err, "invitation of type %s was joined", typ)
		require.Len(t, ownCG.MetadataStore().ListMultiMemberGroups(), 0, "an event was appended for type %s", typ)
	}
}
