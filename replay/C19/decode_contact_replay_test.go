package weshnet

// Replay for C19 (finding B-8a): undecodable input must not crash the service.

import (
	"context"
	"testing"

	"berty.tech/weshnet/v2/pkg/protocoltypes"
)

func TestVerifReplayC19DecodeContact(t *testing.T) {
	defer func() {
		if r := recover(); r != nil {
			t.Fatalf("DecodeContact panicked: %v", r)
		}
	}()
	s := &service{}
	if _, err := s.DecodeContact(context.Background(), &protocoltypes.DecodeContact_Request{EncodedContact: []byte{0xff, 0xff, 0xff}}); err == nil {
		t.Fatal("no error for undecodable input")
	}
}
