package cryptoutil

// Replays for C19 (findings B-8f, B-8g): short ciphertexts and IVs of the wrong
// length must be reported as errors, not crash the process.

import "testing"

func noPanic(t *testing.T, what string, f func() error) {
	t.Helper()
	defer func() {
		if r := recover(); r != nil {
			t.Errorf("%s: panic: %v", what, r)
		}
	}()
	if err := f(); err == nil {
		t.Errorf("%s: no error", what)
	}
}

func TestVerifReplayC19ShortCiphertext(t *testing.T) {
	key := make([]byte, 32)
	for _, n := range []int{0, 1, 11} {
		noPanic(t, "AESGCMDecrypt of a short input", func() error { _, err := AESGCMDecrypt(key, make([]byte, n)); return err })
	}
}

func TestVerifReplayC19BadIV(t *testing.T) {
	key := make([]byte, 32)
	for _, n := range []int{0, 1, 15, 17, 32} {
		noPanic(t, "AESCTRStream with a bad IV", func() error { _, err := AESCTRStream(key, make([]byte, n)); return err })
	}
}
