package protocoltypes

// Replay for C19 (finding B-8e): a group whose secret is not 32 bytes long must
// yield an error, not a panic inside ed25519.NewKeyFromSeed.

import "testing"

func TestVerifReplayC19ShortSecret(t *testing.T) {
	for _, n := range []int{1, 31, 33, 64} {
		func() {
			defer func() {
				if r := recover(); r != nil {
					t.Errorf("secret of %d bytes: panic: %v", n, r)
				}
			}()
			g := &Group{Secret: make([]byte, n)}
			if _, err := g.GetSigningPrivKey(); err == nil {
				t.Errorf("secret of %d bytes: no error", n)
			}
			if _, err := g.GetSigningPubKey(); err == nil {
				t.Errorf("secret of %d bytes: no error from GetSigningPubKey", n)
			}
		}()
	}
}
